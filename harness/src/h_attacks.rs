use crate::Args;
pub fn cmd_attacks(_a: &Args) { unimplemented!() }
