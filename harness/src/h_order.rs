// order-trace: records what the search's move-ordering iterator yields (through the add-only
// cfg(rce_verif) accessor) for validation of the assumption Search.tla makes about it:
// "every move exactly once" (SearchTrace.tla, mode ORD). Heuristic order (TT move first,
// MVV-LVA, killers) is recorded for information only.

use std::io::Write;

use crate::board::{Board, BoardBuilder, Ply};
use crate::h_rng::Rng;
use crate::h_search::run_search;
use crate::Args;

fn names(v: &[Ply]) -> String {
    let n: Vec<String> = v.iter().map(|p| format!("\"{}\"", p.to_notation())).collect();
    format!("[{}]", n.join(","))
}

pub fn cmd_order_trace(args: &Args) {
    crate::board::zkey::ZTable::init();
    let seed = args.u64("seed", 1);
    let n = args.usize("n", 500);
    let out = args.str("out", "work/search/order.ndjson");
    let seeds_dir = args.str("seeds", "seeds");
    let fens = crate::h_chess::read_fens(&seeds_dir, &["corner.fen", "perft.fen", "bench.fen", "sparse.fen", "mates.fen"]);
    let mut rng = Rng::new(seed);
    let mut w = std::io::BufWriter::new(std::fs::File::create(&out).unwrap());
    let mut done = 0usize;
    while done < n {
        let mut board = if rng.chance(1, 3) {
            BoardBuilder::construct_starting_board().build()
        } else {
            let f = rng.pick(&fens).clone();
            let f6 = if f.split_whitespace().count() == 4 { format!("{f} 0 1") } else { f };
            Board::from_fen(&f6)
        };
        for _ in 0..rng.below(30) {
            let lm = board.get_legal_moves();
            if lm.is_empty() {
                break;
            }
            let m = *rng.pick(&lm);
            board.make_move(m);
        }
        // fill the cache for this position sometimes, so that a cached best move exists
        if rng.chance(1, 2) {
            let _ = run_search(&board, 2, None, None, None, "fresh", false);
        } else {
            crate::board::transposition_table::TRANSPOSITION_TABLE.write().unwrap().clear();
        }
        for captures_only in [false, true] {
            let moves: Vec<Ply> = if captures_only {
                board.get_filtered_moves(Ply::is_capture)
            } else {
                board.get_all_moves()
            };
            if moves.is_empty() {
                continue;
            }
            let quiet: Vec<Ply> = moves.iter().filter(|p| p.is_quiet()).copied().collect();
            let k1 = if !quiet.is_empty() && rng.chance(2, 3) { Some(*rng.pick(&quiet)) } else { None };
            let k2 = if !quiet.is_empty() && rng.chance(1, 2) { Some(*rng.pick(&quiet)) } else { None };
            let tt = crate::board::transposition_table::TRANSPOSITION_TABLE
                .read()
                .unwrap()
                .get(&board.zkey)
                .map(|e| e.best_ply);
            let outv = crate::search::Search::verif_order(&moves, board.zkey, &[k1, k2]);
            let caps: Vec<String> = outv.iter().map(|p| u8::from(p.is_capture()).to_string()).collect();
            writeln!(
                w,
                "{{\"ev\":\"order\",\"moves\":{},\"out\":{},\"tt\":\"{}\",\"k1\":\"{}\",\"k2\":\"{}\",\"caps\":[{}]}}",
                names(&moves),
                names(&outv),
                tt.map_or("none".to_string(), |p| p.to_notation()),
                k1.map_or("none".to_string(), |p| p.to_notation()),
                k2.map_or("none".to_string(), |p| p.to_notation()),
                caps.join(",")
            )
            .unwrap();
            done += 1;
        }
    }
    w.flush().unwrap();
    println!("{{\"cases\":{done}}}");
}
