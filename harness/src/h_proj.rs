// Projection of the engine's Board onto the abstract state of Chess.tla.
// Reads the public API only, plus the cfg(rce_verif) accessor for the en-passant file.
// The same projection is used for trace recording (impl -> spec) and replay (spec -> impl).

use crate::board::piece::{Color, Kind};
use crate::board::ply::castling::{CastlingKind, CastlingStatus};
use crate::board::square::Square;
use crate::board::zkey::ZKey;
use crate::board::{Board, Ply};
use crate::evaluate::simple_evaluator::SimpleEvaluator;
use crate::evaluate::Evaluator;

pub fn kind_code(k: Kind) -> u8 {
    let (base, c) = match k {
        Kind::Pawn(c) => (1, c),
        Kind::Knight(c) => (2, c),
        Kind::Bishop(c) => (3, c),
        Kind::Rook(c) => (4, c),
        Kind::Queen(c) => (5, c),
        Kind::King(c) => (6, c),
    };
    if c == Color::White {
        base
    } else {
        base + 6
    }
}

pub fn code_kind(code: u8) -> Option<Kind> {
    let c = if code <= 6 { Color::White } else { Color::Black };
    match (code.wrapping_sub(1)) % 6 + 1 {
        _ if code == 0 || code > 12 => None,
        1 => Some(Kind::Pawn(c)),
        2 => Some(Kind::Knight(c)),
        3 => Some(Kind::Bishop(c)),
        4 => Some(Kind::Rook(c)),
        5 => Some(Kind::Queen(c)),
        _ => Some(Kind::King(c)),
    }
}

pub fn key_u64(k: ZKey) -> u64 {
    k.to_string().parse::<u64>().expect("ZKey displays as u64")
}

pub fn chunks(k: u64) -> String {
    format!(
        "[{},{},{},{}]",
        (k >> 48) & 0xffff,
        (k >> 32) & 0xffff,
        (k >> 16) & 0xffff,
        k & 0xffff
    )
}

/// The 781 table words, obtained through the public mutators on an empty key, in the order
/// of Chess.tla!Features: pieces (code-1)*64+sq, castling K Q k q, ep files a..h, white-to-move.
pub fn ztable_words() -> Vec<u64> {
    let mut v = Vec::with_capacity(781);
    for code in 1..=12u8 {
        for sq in 0..64u8 {
            let mut k = ZKey::new();
            k.add_or_remove_piece(code_kind(code).unwrap(), Square::from(sq));
            v.push(key_u64(k));
        }
    }
    for ck in [
        CastlingKind::WhiteKingside,
        CastlingKind::WhiteQueenside,
        CastlingKind::BlackKingside,
        CastlingKind::BlackQueenside,
    ] {
        let mut k = ZKey::new();
        k.change_castling_rights(ck);
        v.push(key_u64(k));
    }
    for f in 0..8u8 {
        let mut k = ZKey::new();
        k.change_en_passant(f);
        v.push(key_u64(k));
    }
    let mut k = ZKey::new();
    k.change_turn();
    v.push(key_u64(k));
    v
}

pub fn ztable_event() -> String {
    let w: Vec<String> = ztable_words().into_iter().map(chunks).collect();
    format!("{{\"ev\":\"ztable\",\"w\":[{}]}}", w.join(","))
}

#[derive(Clone, Debug, PartialEq, Eq)]
pub struct MoveRec {
    pub from: u8,
    pub to: u8,
    pub promo: u8, // 0 or kind 2..5
    pub flag: u8,  // 0 normal, 1 double push, 2 en passant, 3 castles
    pub cap: u8,   // captured piece code or 0
}

pub fn move_rec(p: &Ply) -> MoveRec {
    MoveRec {
        from: p.start.u8(),
        to: p.dest.u8(),
        promo: p.promoted_to.map_or(0, |k| (kind_code(k) - 1) % 6 + 1),
        flag: if p.en_passant {
            2
        } else if p.is_castles {
            3
        } else if p.is_double_pawn_push {
            1
        } else {
            0
        },
        cap: p.captured_piece.map_or(0, kind_code),
    }
}

#[derive(Clone, Debug, PartialEq, Eq)]
pub struct Abs {
    pub b: [u8; 64],
    pub t: u8,      // 0 white, 1 black
    pub c: [u8; 4], // K Q k q
    pub ep: i8,
    pub h: u16,
    pub f: u16,
    pub k: u64,
    pub fk: u64,
    pub chk: [u8; 2],
    pub e: i32,
    pub lm: Option<Vec<MoveRec>>,
}

/// Light projection: everything except the legal-move list. Does not mutate the board.
pub fn project_light(board: &Board) -> Abs {
    let mut b = [0u8; 64];
    for sq in 0..64u8 {
        b[sq as usize] = board.get_piece(Square::from(sq)).map_or(0, kind_code);
    }
    let av = |k| u8::from(board.castle_status(k) == CastlingStatus::Available);
    let mut scratch = board.clone();
    Abs {
        b,
        t: u8::from(board.current_turn == Color::Black),
        c: [
            av(CastlingKind::WhiteKingside),
            av(CastlingKind::WhiteQueenside),
            av(CastlingKind::BlackKingside),
            av(CastlingKind::BlackQueenside),
        ],
        ep: board.verif_en_passant_file().map_or(-1, |f| f as i8),
        h: board.get_halfmove_clock(),
        f: board.fullmove_counter,
        k: key_u64(board.zkey),
        fk: key_u64(ZKey::from(board)),
        chk: [
            u8::from(board.is_in_check(Color::White)),
            u8::from(board.is_in_check(Color::Black)),
        ],
        e: i32::from(SimpleEvaluator.evaluate(&mut scratch)),
        lm: None,
    }
}

/// Full projection: also the legal moves, generated on a clone so that observing the
/// board cannot disturb it.
pub fn project(board: &Board) -> Abs {
    let mut a = project_light(board);
    let mut scratch = board.clone();
    a.lm = Some(scratch.get_legal_moves().iter().map(move_rec).collect());
    a
}

impl Abs {
    pub fn json(&self) -> String {
        let b: Vec<String> = self.b.iter().map(|x| x.to_string()).collect();
        let mut s = format!(
            "{{\"b\":[{}],\"t\":{},\"c\":[{},{},{},{}],\"ep\":{},\"h\":{},\"f\":{},\"k\":{},\"fk\":{},\"chk\":[{},{}],\"e\":{}",
            b.join(","),
            self.t,
            self.c[0],
            self.c[1],
            self.c[2],
            self.c[3],
            self.ep,
            self.h,
            self.f,
            chunks(self.k),
            chunks(self.fk),
            self.chk[0],
            self.chk[1],
            self.e
        );
        if let Some(lm) = &self.lm {
            let m: Vec<String> = lm
                .iter()
                .map(|m| format!("[{},{},{},{},{}]", m.from, m.to, m.promo, m.flag, m.cap))
                .collect();
            s.push_str(&format!(",\"lm\":[{}]", m.join(",")));
        }
        s.push('}');
        s
    }

    /// FEN written by the harness from the projected components (independent of the engine).
    pub fn fen(&self, six: bool) -> String {
        fen_of(&self.b, self.t, &self.c, self.ep, self.h, self.f, six)
    }
}

pub const PIECE_CH: [char; 13] = [
    '.', 'P', 'N', 'B', 'R', 'Q', 'K', 'p', 'n', 'b', 'r', 'q', 'k',
];

pub fn fen_of(b: &[u8; 64], t: u8, c: &[u8; 4], ep: i8, h: u16, f: u16, six: bool) -> String {
    let mut s = String::new();
    for r in (0..8).rev() {
        let mut run = 0;
        for fl in 0..8 {
            let p = b[r * 8 + fl];
            if p == 0 {
                run += 1;
            } else {
                if run > 0 {
                    s.push_str(&run.to_string());
                    run = 0;
                }
                s.push(PIECE_CH[p as usize]);
            }
        }
        if run > 0 {
            s.push_str(&run.to_string());
        }
        if r > 0 {
            s.push('/');
        }
    }
    s.push(' ');
    s.push(if t == 0 { 'w' } else { 'b' });
    s.push(' ');
    let mut rights = String::new();
    for (i, ch) in ['K', 'Q', 'k', 'q'].iter().enumerate() {
        if c[i] == 1 {
            rights.push(*ch);
        }
    }
    if rights.is_empty() {
        rights.push('-');
    }
    s.push_str(&rights);
    s.push(' ');
    if ep >= 0 {
        s.push((b'a' + ep as u8) as char);
        // the en-passant target square lies behind the pawn that has just moved
        s.push(if t == 0 { '6' } else { '3' });
    } else {
        s.push('-');
    }
    if six {
        s.push_str(&format!(" {h} {f}"));
    }
    s
}

pub fn chars_json(s: &str) -> String {
    let v: Vec<String> = s.chars().map(|c| format!("\"{c}\"")).collect();
    format!("[{}]", v.join(","))
}

pub fn uci_of(m: &MoveRec) -> String {
    let sq = |s: u8| format!("{}{}", (b'a' + s % 8) as char, s / 8 + 1);
    let p = match m.promo {
        5 => "q",
        4 => "r",
        3 => "b",
        2 => "n",
        _ => "",
    };
    format!("{}{}{}", sq(m.from), sq(m.to), p)
}
