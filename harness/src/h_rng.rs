// Small deterministic RNG (splitmix64 / xorshift64*), so traces depend on VERIF_SEED only.
pub struct Rng(u64);

impl Rng {
    pub fn new(seed: u64) -> Self {
        let mut r = Self(seed ^ 0x9E37_79B9_7F4A_7C15);
        r.next();
        r.next();
        r
    }
    pub fn next(&mut self) -> u64 {
        self.0 = self.0.wrapping_add(0x9E37_79B9_7F4A_7C15);
        let mut z = self.0;
        z = (z ^ (z >> 30)).wrapping_mul(0xBF58_476D_1CE4_E5B9);
        z = (z ^ (z >> 27)).wrapping_mul(0x94D0_49BB_1331_11EB);
        z ^ (z >> 31)
    }
    pub fn below(&mut self, n: usize) -> usize {
        if n == 0 {
            0
        } else {
            (self.next() % n as u64) as usize
        }
    }
    pub fn chance(&mut self, num: u64, den: u64) -> bool {
        self.next() % den < num
    }
    pub fn pick<'a, T>(&mut self, v: &'a [T]) -> &'a T {
        &v[self.below(v.len())]
    }
    pub fn fork(&mut self) -> Self {
        Self::new(self.next())
    }
}
