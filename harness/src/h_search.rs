use crate::Args;
pub fn cmd_search_trace(_a: &Args) { unimplemented!() }
pub fn cmd_tree_dump(_a: &Args) { unimplemented!() }
pub fn cmd_mate_facts(_a: &Args) { unimplemented!() }
pub fn cmd_determinism(_a: &Args) { unimplemented!() }
