// search-trace : runs the real search on listed cases and records result, TT writes and abort
//                returns (through the cfg(rce_verif) observers) for spec/SearchTrace.tla.
// tree-dump    : dumps the un-pruned look-ahead tree of a case using the Board API only
//                (never search code), for evaluation of LookVal by TLC.
// mate-facts   : per root move, the mate-level facts of a position (Board API only).
// determinism  : repeated fixed-depth searches from a fresh cache.

use std::io::{BufRead, Write};
use std::sync::atomic::Ordering;

use crate::board::piece::Color;
use crate::board::transposition_table::TRANSPOSITION_TABLE;
use crate::board::{Board, BoardBuilder, Ply};
use crate::evaluate::simple_evaluator::SimpleEvaluator;
use crate::evaluate::Evaluator;
use crate::h_proj::*;
use crate::search::limits::SearchLimits;
use crate::search::Search;
use crate::Args;

fn clear_tt() {
    TRANSPOSITION_TABLE.write().unwrap().clear();
}

pub fn build_board(fen: &str, hist: &[String]) -> Option<Board> {
    let mut board = if fen == "startpos" {
        BoardBuilder::construct_starting_board().build()
    } else {
        Board::from_fen(fen)
    };
    for m in hist {
        let p = board.find_move(m).ok()?;
        board.make_move(p);
    }
    Some(board)
}

fn read_cases(path: &str) -> Vec<serde_json::Value> {
    let f = std::fs::File::open(path).expect("cases file");
    std::io::BufReader::new(f)
        .lines()
        .map_while(Result::ok)
        .filter(|l| !l.trim().is_empty())
        .map(|l| serde_json::from_str(&l).expect("case json"))
        .collect()
}

fn hist_of(v: &serde_json::Value) -> Vec<String> {
    v["hist"]
        .as_array()
        .map(|a| a.iter().map(|x| x.as_str().unwrap().to_string()).collect())
        .unwrap_or_default()
}

/// Silence the engine's own stdout chatter (info / bestmove lines) while a search runs in-process.
struct Quiet {
    saved: i32,
}
extern "C" {
    fn dup(fd: i32) -> i32;
    fn dup2(a: i32, b: i32) -> i32;
    fn close(fd: i32) -> i32;
    fn open(path: *const u8, flags: i32) -> i32;
}
impl Quiet {
    fn new() -> Self {
        std::io::stdout().flush().ok();
        unsafe {
            let saved = dup(1);
            let null = open(b"/dev/null\0".as_ptr(), 1);
            dup2(null, 1);
            close(null);
            Self { saved }
        }
    }
}
impl Drop for Quiet {
    fn drop(&mut self) {
        std::io::stdout().flush().ok();
        unsafe {
            dup2(self.saved, 1);
            close(self.saved);
        }
    }
}

pub struct Outcome {
    pub best: Option<Ply>,
    pub score: Option<i16>,
    pub nodes: u64,
    pub events: Vec<String>,
    pub panicked: bool,
}

/// One search of `board` to `depth` with the given limits. `cache`: "off" (table emptied before
/// every probe), "fresh" (emptied before the search), "keep" (left as it is).
pub fn run_search(
    board: &Board,
    depth: u8,
    nodes: Option<u64>,
    movetime: Option<u128>,
    stop_after_us: Option<u64>,
    cache: &str,
    record: bool,
) -> Outcome {
    run_search_clock(board, depth, nodes, movetime, None, stop_after_us, cache, record)
}

/// Same, with an optional game clock (both sides; the engine then thinks for clock/20 ms).
#[allow(clippy::too_many_arguments)]
pub fn run_search_clock(
    board: &Board,
    depth: u8,
    nodes: Option<u64>,
    movetime: Option<u128>,
    clock: Option<u128>,
    stop_after_us: Option<u64>,
    cache: &str,
    record: bool,
) -> Outcome {
    crate::verif::CACHE_OFF.store(cache == "off", Ordering::Relaxed);
    if cache != "keep" {
        clear_tt();
    }
    let limits = SearchLimits::new().nodes(nodes).movetime(movetime).white_time(clock).black_time(clock);
    let mut search = Search::new(board, Some(limits));
    let flag = search.running.clone();
    if record {
        crate::verif::record_start();
    }
    let stopper = stop_after_us.map(|us| {
        std::thread::spawn(move || {
            std::thread::sleep(std::time::Duration::from_micros(us));
            flag.store(false, Ordering::Relaxed);
        })
    });
    let r = {
        let _q = Quiet::new();
        std::panic::catch_unwind(std::panic::AssertUnwindSafe(|| {
            search.search(&SimpleEvaluator, Some(depth));
        }))
    };
    if let Some(h) = stopper {
        let _ = h.join();
    }
    let events = if record { crate::verif::record_take() } else { Vec::new() };
    crate::verif::CACHE_OFF.store(false, Ordering::Relaxed);
    let (best, score, n) = search.verif_result();
    Outcome { best, score, nodes: n, events, panicked: r.is_err() }
}

fn opt<T: std::fmt::Display>(o: Option<T>) -> String {
    o.map_or("99999".to_string(), |x| x.to_string())
}

pub fn cmd_search_trace(args: &Args) {
    let cases = read_cases(&args.str("cases", "work/search/cases.ndjson"));
    let out = args.str("out", "work/search/trace.ndjson");
    crate::board::zkey::ZTable::init();
    std::panic::set_hook(Box::new(|_| {}));
    let mut w = std::io::BufWriter::new(std::fs::File::create(&out).unwrap());
    for (i, c) in cases.iter().enumerate() {
        let fen = c["fen"].as_str().unwrap();
        let hist = hist_of(c);
        let depth = c["depth"].as_u64().unwrap_or(1) as u8;
        let nodes = c["budget"].as_u64();
        let movetime = c["movetime"].as_u64().map(u128::from);
        let stop_us = c["stop_us"].as_u64();
        let clock = c["clock"].as_u64().map(u128::from);
        let cache = c["cache"].as_str().unwrap_or("fresh");
        let id = c["id"].as_u64().unwrap_or(i as u64);
        let Some(board) = build_board(fen, &hist) else {
            writeln!(w, "{{\"ev\":\"badcase\",\"id\":{id}}}").unwrap();
            continue;
        };
        let o = run_search_clock(&board, depth, nodes, movetime, clock, stop_us, cache, true);
        let hist_json: Vec<String> = hist.iter().map(|m| format!("\"{m}\"")).collect();
        writeln!(
            w,
            "{{\"ev\":\"search\",\"id\":{id},\"group\":{},\"fen\":\"{fen}\",\"hist\":[{}],\"depth\":{depth},\"budget\":{},\"movetime\":{},\"clock\":{},\"stop_us\":{},\"cache\":\"{cache}\",\"best\":{},\"score\":{},\"nodes\":{},\"panicked\":{},\"nev\":{}}}",
            c["group"].as_u64().unwrap_or(id),
            hist_json.join(","),
            nodes.map_or(-1i64, |n| n as i64),
            movetime.map_or(-1i64, |n| n as i64),
            clock.map_or(-1i64, |n| n as i64),
            stop_us.map_or(-1i64, |n| n as i64),
            o.best.map_or("\"none\"".to_string(), |p| format!("\"{}\"", p.to_notation())),
            opt(o.score),
            o.nodes,
            o.panicked,
            o.events.len()
        )
        .unwrap();
        for e in &o.events {
            writeln!(w, "{e}").unwrap();
        }
        writeln!(w, "{{\"ev\":\"end\",\"id\":{id}}}").unwrap();
    }
    w.flush().unwrap();
    println!("{{\"cases\":{}}}", cases.len());
}

// ------------------------------------------------------------------------------------------
// un-pruned look-ahead tree (Board API only)

struct Dump {
    nodes: Vec<String>,
    cap: usize,
    overflow: bool,
}

/// Returns the 1-based id of the dumped node, or 0 when the cap was exceeded.
fn dump_node(board: &mut Board, depth_left: u32, d: &mut Dump) -> usize {
    if d.nodes.len() >= d.cap {
        d.overflow = true;
        return 0;
    }
    let id = d.nodes.len() + 1;
    d.nodes.push(String::new());
    let fifty = board.get_halfmove_clock() >= 100;
    let rep = board.position_reached(board.zkey);
    let chk = board.is_in_check(board.current_turn);
    let eval = i32::from(SimpleEvaluator.evaluate(board));
    let mut kids: Vec<String> = Vec::new();
    let mut full = false;
    if !(fifty || rep) {
        let dd = depth_left + u32::from(chk);
        let moves = board.get_legal_moves();
        full = dd > 0;
        for m in moves {
            let is_cap = m.captured_piece.is_some();
            if dd == 0 && !is_cap {
                kids.push(format!("[0,0,\"{}\"]", m.to_notation()));
                continue;
            }
            board.make_move(m);
            let k = dump_node(board, if dd == 0 { 0 } else { dd - 1 }, d);
            board.unmake_move();
            kids.push(format!("[{k},{},\"{}\"]", u8::from(is_cap), m.to_notation()));
            if d.overflow {
                break;
            }
        }
    }
    d.nodes[id - 1] = format!(
        "{{\"ev\":\"n\",\"fifty\":{fifty},\"rep\":{rep},\"chk\":{chk},\"eval\":{eval},\"full\":{full},\"kids\":[{}]}}",
        kids.join(",")
    );
    id
}

/// The root is not subject to the draw tests or the check extension (alpha_beta_start): its
/// children are searched with depth-1. The dump records the root as a full node with `root: true`.
pub fn dump_tree(board: &mut Board, depth: u32, cap: usize) -> Option<Vec<String>> {
    let mut d = Dump { nodes: Vec::new(), cap, overflow: false };
    d.nodes.push(String::new());
    let moves = board.get_legal_moves();
    let mut kids = Vec::new();
    for m in moves {
        let is_cap = m.captured_piece.is_some();
        board.make_move(m);
        let k = dump_node(board, depth - 1, &mut d);
        board.unmake_move();
        kids.push(format!("[{k},{},\"{}\"]", u8::from(is_cap), m.to_notation()));
        if d.overflow {
            return None;
        }
    }
    let chk = board.is_in_check(board.current_turn);
    let eval = i32::from(SimpleEvaluator.evaluate(board));
    d.nodes[0] = format!(
        "{{\"ev\":\"n\",\"fifty\":false,\"rep\":false,\"chk\":{chk},\"eval\":{eval},\"full\":true,\"kids\":[{}]}}",
        kids.join(",")
    );
    Some(d.nodes)
}

pub fn cmd_tree_dump(args: &Args) {
    let cases = read_cases(&args.str("cases", "work/search/cases.ndjson"));
    let outdir = args.str("outdir", "work/search/trees");
    let cap = args.usize("cap", 200_000);
    std::fs::create_dir_all(&outdir).unwrap();
    crate::board::zkey::ZTable::init();
    std::panic::set_hook(Box::new(|_| {}));
    let mut done = 0usize;
    let mut skipped = 0usize;
    for (i, c) in cases.iter().enumerate() {
        let fen = c["fen"].as_str().unwrap();
        let hist = hist_of(c);
        let depth = c["depth"].as_u64().unwrap_or(1) as u32;
        let id = c["id"].as_u64().unwrap_or(i as u64);
        let Some(mut board) = build_board(fen, &hist) else {
            skipped += 1;
            continue;
        };
        // the engine's own answer for this case, with caching neutralised
        let o = run_search(&board, depth as u8, None, None, None, "off", false);
        let Some(nodes) = dump_tree(&mut board, depth, cap) else {
            skipped += 1;
            continue;
        };
        let hist_json: Vec<String> = hist.iter().map(|m| format!("\"{m}\"")).collect();
        // one header line, then one line per node (huge single-line objects are quadratic to load in TLC)
        let path = format!("{outdir}/tree-{id}.ndjson");
        let mut w = std::io::BufWriter::new(std::fs::File::create(&path).unwrap());
        writeln!(
            w,
            "{{\"ev\":\"tree\",\"id\":{id},\"fen\":\"{fen}\",\"hist\":[{}],\"depth\":{depth},\"best\":{},\"score\":{},\"panicked\":{},\"n\":{}}}",
            hist_json.join(","),
            o.best.map_or("\"none\"".to_string(), |p| format!("\"{}\"", p.to_notation())),
            opt(o.score),
            o.panicked,
            nodes.len()
        )
        .unwrap();
        for nd in &nodes {
            writeln!(w, "{nd}").unwrap();
        }
        w.flush().unwrap();
        done += 1;
    }
    println!("{{\"dumped\":{done},\"skipped\":{skipped}}}");
}

/// search-steps: for each case the un-pruned tree (header + one node per line) followed by the
/// `down` / `up` events of the real search of that case with caching neutralised.
pub fn cmd_search_steps(args: &Args) {
    let cases = read_cases(&args.str("cases", "work/search/cases.ndjson"));
    let out = args.str("out", "work/search/steps.ndjson");
    let cap = args.usize("cap", 6000);
    crate::board::zkey::ZTable::init();
    std::panic::set_hook(Box::new(|_| {}));
    let mut w = std::io::BufWriter::new(std::fs::File::create(&out).unwrap());
    let mut done = 0usize;
    let mut skipped = 0usize;
    for (i, c) in cases.iter().enumerate() {
        let fen = c["fen"].as_str().unwrap();
        let hist = hist_of(c);
        let depth = c["depth"].as_u64().unwrap_or(1) as u32;
        let id = c["id"].as_u64().unwrap_or(i as u64);
        let Some(mut board) = build_board(fen, &hist) else {
            skipped += 1;
            continue;
        };
        let Some(nodes) = dump_tree(&mut board, depth, cap) else {
            skipped += 1;
            continue;
        };
        crate::verif::STEPS.store(true, Ordering::Relaxed);
        let o = run_search(&board, depth as u8, None, None, None, "off", true);
        crate::verif::STEPS.store(false, Ordering::Relaxed);
        let hist_json: Vec<String> = hist.iter().map(|m| format!("\"{m}\"")).collect();
        writeln!(
            w,
            "{{\"ev\":\"tree\",\"id\":{id},\"fen\":\"{fen}\",\"hist\":[{}],\"depth\":{depth},\"best\":{},\"score\":{},\"panicked\":{},\"n\":{},\"nsteps\":{}}}",
            hist_json.join(","),
            o.best.map_or("\"none\"".to_string(), |p| format!("\"{}\"", p.to_notation())),
            opt(o.score),
            o.panicked,
            nodes.len(),
            o.events.len()
        )
        .unwrap();
        for nd in &nodes {
            writeln!(w, "{nd}").unwrap();
        }
        for e in &o.events {
            if e.contains("\"ev\":\"down\"") || e.contains("\"ev\":\"up\"") || e.contains("\"ev\":\"ttwrite\"") {
                writeln!(w, "{e}").unwrap();
            }
        }
        writeln!(w, "{{\"ev\":\"endsteps\",\"id\":{id}}}").unwrap();
        done += 1;
    }
    w.flush().unwrap();
    println!("{{\"cases\":{done},\"skipped\":{skipped}}}");
}

// ------------------------------------------------------------------------------------------
// mate-level facts (Board API only) and the searches of C12

fn is_mate(board: &mut Board) -> bool {
    board.get_legal_moves().is_empty() && board.is_in_check(board.current_turn)
}

/// For each root move: mates at once / stalemates / for each reply: (reply mates us, we have a mating answer).
fn facts(board: &mut Board) -> String {
    let mut out = Vec::new();
    for m in board.get_legal_moves() {
        board.make_move(m);
        let replies = board.get_legal_moves();
        let chk = board.is_in_check(board.current_turn);
        let mates = replies.is_empty() && chk;
        let stale = replies.is_empty() && !chk;
        let mut rs = Vec::new();
        for r in replies {
            board.make_move(r);
            let reply_mates = is_mate(board);
            let mut answer = false;
            if !reply_mates {
                for a in board.get_legal_moves() {
                    board.make_move(a);
                    if is_mate(board) {
                        answer = true;
                    }
                    board.unmake_move();
                    if answer {
                        break;
                    }
                }
            }
            board.unmake_move();
            rs.push(format!("[{},{}]", u8::from(reply_mates), u8::from(answer)));
        }
        board.unmake_move();
        out.push(format!(
            "{{\"mv\":\"{}\",\"mates\":{mates},\"stale\":{stale},\"replies\":[{}]}}",
            m.to_notation(),
            rs.join(",")
        ));
    }
    format!("[{}]", out.join(","))
}

/// Exhaustive AND/OR analysis: the side to move can force mate within `moves` of its own moves.
fn forces_mate(board: &mut Board, moves: u32) -> bool {
    for m in board.get_legal_moves() {
        board.make_move(m);
        let replies = board.get_legal_moves();
        let ok = if replies.is_empty() {
            board.is_in_check(board.current_turn)
        } else if moves <= 1 {
            false
        } else {
            let mut all = true;
            for r in replies {
                board.make_move(r);
                let f = forces_mate(board, moves - 1);
                board.unmake_move();
                if !f {
                    all = false;
                    break;
                }
            }
            all
        };
        board.unmake_move();
        if ok {
            return true;
        }
    }
    false
}

/// After `mv` (by the side to move) the opponent is mated, or every reply still allows a forced mate within
/// `moves` further moves: the move keeps a forced mate of at most `moves + 1` moves.
fn keeps_forced_mate(board: &mut Board, mv: &str, moves: u32) -> bool {
    let Ok(p) = board.find_move(mv) else { return false };
    board.make_move(p);
    let replies = board.get_legal_moves();
    let res = if replies.is_empty() {
        board.is_in_check(board.current_turn)
    } else {
        let mut all = true;
        for r in replies {
            board.make_move(r);
            let f = forces_mate(board, moves);
            board.unmake_move();
            if !f {
                all = false;
                break;
            }
        }
        all
    };
    board.unmake_move();
    res
}

pub fn cmd_mate_facts(args: &Args) {
    // cases: {"id", "fen", "pre": [depths searched before, cache kept], "depth": d}
    let cases = read_cases(&args.str("cases", "work/search/cases.ndjson"));
    let out = args.str("out", "work/search/mates.ndjson");
    crate::board::zkey::ZTable::init();
    std::panic::set_hook(Box::new(|_| {}));
    let mut w = std::io::BufWriter::new(std::fs::File::create(&out).unwrap());
    let mut last_fen = String::new();
    let mut last_facts = String::new();
    let mut last_cut_fen = String::new();
    let mut last_cut_depth = 0u8;
    let mut last_cut = (0u64, 0u64);
    for (i, c) in cases.iter().enumerate() {
        let fen = c["fen"].as_str().unwrap();
        let id = c["id"].as_u64().unwrap_or(i as u64);
        let depth = c["depth"].as_u64().unwrap_or(3) as u8;
        let pre: Vec<u8> = c["pre"]
            .as_array()
            .map(|a| a.iter().map(|x| x.as_u64().unwrap() as u8).collect())
            .unwrap_or_default();
        let mut board = Board::from_fen(fen);
        if fen != last_fen {
            last_facts = facts(&mut board);
            last_fen = fen.to_string();
        }
        // "cut": f in (0, 1): the depth-limited search is interrupted by a node budget placed that far between the end
        // of the iteration before the last one and the end of the search (the earlier iterations are complete)
        let mut budget: Option<u64> = None;
        if let Some(f) = c["cut"].as_f64() {
            if fen != last_cut_fen || depth != last_cut_depth {
                let a = run_search(&board, depth - 1, None, None, None, "fresh", false);
                let b = run_search(&board, depth, None, None, None, "fresh", false);
                last_cut = (a.nodes, b.nodes);
                last_cut_fen = fen.to_string();
                last_cut_depth = depth;
            }
            let (n3, n4) = last_cut;
            if n4 > n3 + 1 {
                budget = Some(n3 + 1 + ((n4 - n3 - 1) as f64 * f) as u64);
            }
        }
        clear_tt();
        let mut panicked = false;
        for d in &pre {
            let o = run_search(&board, *d, None, None, None, "keep", false);
            panicked |= o.panicked;
        }
        let o = run_search(&board, depth, budget, None, None, "keep", false);
        panicked |= o.panicked;
        let pre_s: Vec<String> = pre.iter().map(|d| d.to_string()).collect();
        // does the chosen move keep a forced mate of at most three moves (exhaustive 5-ply analysis after it)?
        // only needed when a forced mate exists and the chosen move is not itself a mate in <= 2: computed lazily
        let best_name = o.best.map(|p| p.to_notation()).unwrap_or_default();
        let strict_ok = last_facts.contains(&format!("{{\"mv\":\"{best_name}\",\"mates\":true"));
        let keeps3 = !best_name.is_empty() && !strict_ok && {
            let mut b2 = Board::from_fen(fen);
            keeps_forced_mate(&mut b2, &best_name, 2)
        };
        writeln!(
            w,
            "{{\"ev\":\"mate\",\"id\":{id},\"fen\":\"{fen}\",\"chars\":{},\"depth\":{depth},\"pre\":[{}],\"budget\":{},\"best\":{},\"score\":{},\"panicked\":{panicked},\"keeps3\":{keeps3},\"facts\":{}}}",
            chars_json(fen),
            pre_s.join(","),
            budget.map_or(-1i64, |b| b as i64),
            o.best.map_or("\"none\"".to_string(), |p| format!("\"{}\"", p.to_notation())),
            opt(o.score),
            last_facts
        )
        .unwrap();
    }
    w.flush().unwrap();
    println!("{{\"cases\":{}}}", cases.len());
}

// ------------------------------------------------------------------------------------------
// transposition-table probes of cached searches (C12): every consulted entry with the node's depth and
// window, followed by what the node did (went on with a window / returned at once)

pub fn cmd_probe_trace(args: &Args) {
    // cases: {"id", "fen", "pre": [depths searched before, cache kept], "depth": d}
    let cases = read_cases(&args.str("cases", "work/search/cases.ndjson"));
    let out = args.str("out", "work/search/probes.ndjson");
    let cap = args.usize("cap", 40000);
    crate::board::zkey::ZTable::init();
    std::panic::set_hook(Box::new(|_| {}));
    let mut w = std::io::BufWriter::new(std::fs::File::create(&out).unwrap());
    let mut written = 0usize;
    let mut done = 0usize;
    let mut probes = 0usize;
    for (i, c) in cases.iter().enumerate() {
        if written >= cap {
            break;
        }
        let fen = c["fen"].as_str().unwrap();
        let id = c["id"].as_u64().unwrap_or(i as u64);
        let depth = c["depth"].as_u64().unwrap_or(3) as u8;
        let mut sched: Vec<u8> = c["pre"]
            .as_array()
            .map(|a| a.iter().map(|x| x.as_u64().unwrap() as u8).collect())
            .unwrap_or_default();
        sched.push(depth);
        let board = Board::from_fen(fen);
        clear_tt();
        for (k, d) in sched.iter().enumerate() {
            crate::verif::STEPS.store(true, Ordering::Relaxed);
            let o = run_search(&board, *d, None, None, None, "keep", true);
            crate::verif::STEPS.store(false, Ordering::Relaxed);
            writeln!(
                w,
                "{{\"ev\":\"psearch\",\"id\":{id},\"fen\":\"{fen}\",\"nth\":{k},\"depth\":{d},\"panicked\":{}}}",
                o.panicked
            )
            .unwrap();
            written += 1;
            let mut keep_next = false;
            for e in &o.events {
                let is_probe = e.contains("\"ev\":\"probe\"");
                if is_probe || keep_next {
                    writeln!(w, "{e}").unwrap();
                    written += 1;
                }
                if is_probe {
                    probes += 1;
                }
                keep_next = is_probe;
            }
        }
        done += 1;
    }
    w.flush().unwrap();
    println!("{{\"cases\":{done},\"probes\":{probes},\"lines\":{written}}}");
}

// ------------------------------------------------------------------------------------------

pub fn cmd_determinism(args: &Args) {
    // cases: {"fen", "hist", "depth"}; each searched `reps` times from an empty cache
    let cases = read_cases(&args.str("cases", "work/search/cases.ndjson"));
    let out = args.str("out", "work/search/det.ndjson");
    let reps = args.usize("reps", 3);
    let tag = args.str("tag", "p0");
    crate::board::zkey::ZTable::init();
    std::panic::set_hook(Box::new(|_| {}));
    let mut w = std::io::BufWriter::new(std::fs::File::create(&out).unwrap());
    for (i, c) in cases.iter().enumerate() {
        let fen = c["fen"].as_str().unwrap();
        let hist = hist_of(c);
        let depth = c["depth"].as_u64().unwrap_or(1) as u8;
        let id = c["id"].as_u64().unwrap_or(i as u64);
        let Some(board) = build_board(fen, &hist) else {
            continue;
        };
        for r in 0..reps {
            let o = run_search(&board, depth, None, None, None, "fresh", false);
            writeln!(
                w,
                "{{\"ev\":\"result\",\"case\":{id},\"depth\":{depth},\"run\":\"{tag}-{r}\",\"best\":{},\"score\":{},\"nodes\":{},\"panicked\":{}}}",
                o.best.map_or("\"none\"".to_string(), |p| format!("\"{}\"", p.to_notation())),
                opt(o.score),
                o.nodes,
                o.panicked
            )
            .unwrap();
        }
    }
    w.flush().unwrap();
    println!("{{\"cases\":{}}}", cases.len());
}

/// (mate in 1 exists, forced mate in 2 exists, avoidable mate-in-1 threat) by exhaustive 3-ply analysis
fn classify(board: &mut Board) -> (bool, bool, bool) {
    let mut m1 = false;
    let mut m2 = false;
    let mut safe = false;
    let mut unsafe_ = false;
    for m in board.get_legal_moves() {
        board.make_move(m);
        let replies = board.get_legal_moves();
        let chk = board.is_in_check(board.current_turn);
        if replies.is_empty() {
            if chk {
                m1 = true;
            }
            safe = true;
            board.unmake_move();
            continue;
        }
        let mut all_answered = true;
        let mut this_safe = true;
        for r in replies {
            board.make_move(r);
            if is_mate(board) {
                this_safe = false;
                all_answered = false;
            } else if all_answered {
                let mut answer = false;
                for a in board.get_legal_moves() {
                    board.make_move(a);
                    if is_mate(board) {
                        answer = true;
                    }
                    board.unmake_move();
                    if answer {
                        break;
                    }
                }
                if !answer {
                    all_answered = false;
                }
            }
            board.unmake_move();
        }
        if all_answered {
            m2 = true;
        }
        if this_safe {
            safe = true;
        } else {
            unsafe_ = true;
        }
        board.unmake_move();
    }
    (m1, m2 && !m1, safe && unsafe_)
}

/// Random sparse material: both kings, an attacking side with heavy pieces, a thin defence.
fn random_material(rng: &mut crate::h_rng::Rng) -> Option<String> {
    let mut b = [0u8; 64];
    let wk = rng.below(64);
    let mut bk = rng.below(64);
    while (bk / 8).abs_diff(wk / 8) <= 1 && (bk % 8).abs_diff(wk % 8) <= 1 {
        bk = rng.below(64);
    }
    b[wk] = 6;
    b[bk] = 12;
    let attacker_white = rng.chance(1, 2);
    let na = 2 + rng.below(3);
    let nd = rng.below(4);
    for i in 0..(na + nd) {
        let sq = rng.below(64);
        if b[sq] != 0 {
            continue;
        }
        let for_attacker = i < na;
        let kind: u8 = if for_attacker { *rng.pick(&[5u8, 5, 4, 4, 3, 2]) } else { *rng.pick(&[1u8, 1, 2, 3, 4]) };
        if kind == 1 && (sq / 8 == 0 || sq / 8 == 7) {
            continue;
        }
        let white = for_attacker == attacker_white;
        b[sq] = kind + if white { 0 } else { 6 };
    }
    let turn = if rng.chance(3, 4) { u8::from(!attacker_white) } else { u8::from(attacker_white) };
    let fen = fen_of(&b, turn, &[0, 0, 0, 0], -1, rng.below(11) as u16, 1 + rng.below(60) as u16, true);
    let mut board = Board::from_fen(&fen);
    // legal position: the side not to move is not in check, the side to move has a move
    let other = if board.current_turn == Color::White { Color::Black } else { Color::White };
    if board.is_in_check(other) || board.get_legal_moves().len() < 2 {
        return None;
    }
    Some(fen)
}

/// Candidate positions for C12 with quotas per clause: positions from random playouts and random
/// sparse material, kept when the exhaustive 3-ply analysis (engine move generator; the authoritative
/// evaluation of the clauses is TLC's) finds a mate in 1, a forced mate in 2, or an avoidable
/// mate-in-1 threat; written out as FEN (no history, small half-move clock) by the harness's writer.
pub fn cmd_mate_cands(args: &Args) {
    use crate::h_rng::Rng;
    crate::board::zkey::ZTable::init();
    let seed = args.u64("seed", 1);
    let want = args.usize("n", 100);
    let seeds_dir = args.str("seeds", "seeds");
    let fens = crate::h_chess::read_fens(&seeds_dir, &["bench.fen", "perft.fen", "mates.fen"]);
    let mut rng = Rng::new(seed);
    let only = args.str("only", "");
    let quota = if only == "m2" {
        [0, want, 0]
    } else {
        [want / 4, want / 2, want - want / 4 - want / 2] // mate in 1, mate in 2, threat
    };
    let mut got = [0usize; 3];
    let mut seen = std::collections::HashSet::new();
    let mut tries = 0usize;
    let mut emit = |fen: String, board: &mut Board, got: &mut [usize; 3], seen: &mut std::collections::HashSet<String>| {
        let (m1, m2, th) = classify(board);
        let cat = if m2 { 1 } else if m1 { 0 } else if th { 2 } else { 3 };
        if cat < 3 && got[cat] < quota[cat] && seen.insert(fen.clone()) {
            got[cat] += 1;
            println!("{fen}");
        }
    };
    while got.iter().sum::<usize>() < want && tries < want * 3000 {
        tries += 1;
        if rng.chance(2, 3) {
            if let Some(fen) = random_material(&mut rng) {
                let mut board = Board::from_fen(&fen);
                emit(fen, &mut board, &mut got, &mut seen);
            }
            continue;
        }
        let mut board = if rng.chance(1, 3) {
            BoardBuilder::construct_starting_board().build()
        } else {
            let f = rng.pick(&fens).clone();
            let f6 = if f.split_whitespace().count() == 4 { format!("{f} 0 1") } else { f };
            Board::from_fen(&f6)
        };
        let plies = 4 + rng.below(90);
        let mut per_game = 0;
        for _ in 0..plies {
            let lm = board.get_legal_moves();
            if lm.is_empty() {
                break;
            }
            let caps: Vec<&Ply> = lm.iter().filter(|p| p.captured_piece.is_some()).collect();
            let m = if !caps.is_empty() && rng.chance(1, 3) { **rng.pick(&caps) } else { *rng.pick(&lm) };
            board.make_move(m);
            if rng.chance(1, 2) || board.get_legal_moves().len() < 2 {
                continue;
            }
            let a = project_light(&board);
            let fen = fen_of(&a.b, a.t, &a.c, a.ep, rng.below(11) as u16, a.f.max(1), true);
            let before = got.iter().sum::<usize>();
            let mut fresh = Board::from_fen(&fen);
            emit(fen, &mut fresh, &mut got, &mut seen);
            if got.iter().sum::<usize>() > before {
                per_game += 1;
                if per_game >= 2 {
                    break;
                }
            }
        }
    }
    eprintln!("mate-cands: mate1={} mate2={} threat={} tries={}", got[0], got[1], got[2], tries);
}

/// Sparse positions in which checks occur inside a shallow tree (for C11: the check extension matters).
pub fn cmd_checky(args: &Args) {
    use crate::h_rng::Rng;
    crate::board::zkey::ZTable::init();
    let seed = args.u64("seed", 1);
    let want = args.usize("n", 100);
    let mut rng = Rng::new(seed);
    let mut out = 0usize;
    let mut tries = 0usize;
    while out < want && tries < want * 1000 {
        tries += 1;
        let Some(fen) = random_material(&mut rng) else { continue };
        let mut board = Board::from_fen(&fen);
        // some move gives check, or the side to move is in check
        let mut checky = board.is_in_check(board.current_turn);
        if !checky {
            for m in board.get_legal_moves() {
                board.make_move(m);
                if board.is_in_check(board.current_turn) && !board.get_legal_moves().is_empty() {
                    checky = true;
                }
                board.unmake_move();
                if checky {
                    break;
                }
            }
        }
        if checky {
            println!("{fen}");
            out += 1;
        }
    }
}

/// Sparse positions in which a double pawn push is possible next to an enemy pawn, so that an en-passant
/// capture arises at the horizon of a shallow search (for C11: quiescence must treat it as a capture).
pub fn cmd_epq(args: &Args) {
    use crate::h_rng::Rng;
    crate::board::zkey::ZTable::init();
    let seed = args.u64("seed", 1);
    let want = args.usize("n", 50);
    let mut rng = Rng::new(seed);
    let mut out = 0usize;
    let mut tries = 0usize;
    while out < want && tries < want * 500 {
        tries += 1;
        let white_pushes = rng.chance(1, 2);
        let mut b = [0u8; 64];
        let f = rng.below(8);
        let nf = if f == 0 { 1 } else if f == 7 { 6 } else if rng.chance(1, 2) { f - 1 } else { f + 1 };
        if white_pushes {
            b[8 + f] = 1; // white pawn on its second rank
            b[24 + nf] = 7; // black pawn on the fourth rank next to the landing square
        } else {
            b[48 + f] = 7;
            b[32 + nf] = 1;
        }
        // kings and a few more pieces on free squares (not on the pusher's path)
        let blocked = if white_pushes { [16 + f, 24 + f] } else { [40 + f, 32 + f] };
        let mut place = |b: &mut [u8; 64], code: u8, rng: &mut Rng| {
            for _ in 0..100 {
                let sq = rng.below(64);
                if b[sq] == 0 && !blocked.contains(&sq) && !((code == 1 || code == 7) && (sq / 8 == 0 || sq / 8 == 7)) {
                    b[sq] = code;
                    return;
                }
            }
        };
        place(&mut b, 6, &mut rng);
        place(&mut b, 12, &mut rng);
        for _ in 0..rng.below(4) {
            let k = 1 + rng.below(5) as u8;
            let code = k + if rng.chance(1, 2) { 6 } else { 0 };
            place(&mut b, code, &mut rng);
        }
        let wk = b.iter().position(|&x| x == 6).unwrap();
        let bk = b.iter().position(|&x| x == 12).unwrap();
        if (bk / 8).abs_diff(wk / 8) <= 1 && (bk % 8).abs_diff(wk % 8) <= 1 {
            continue;
        }
        let fen = fen_of(&b, u8::from(!white_pushes), &[0, 0, 0, 0], -1, 0, 1, true);
        let mut board = Board::from_fen(&fen);
        let other = if board.current_turn == Color::White { Color::Black } else { Color::White };
        if board.is_in_check(other) {
            continue;
        }
        // the double push must be legal
        if !board.get_legal_moves().iter().any(|p| p.is_double_pawn_push && p.start.file as usize == f) {
            continue;
        }
        println!("{fen}");
        out += 1;
    }
}
