// uci-inproc: runs the engine's real uci_loop on scripted input (through the add-only
// cfg(rce_verif) entry point) and records, after every command, the session position as the
// observer hook shows it. Output: one ndjson batch for spec/UciTrace.tla (mode C08).
//
// Input file: one session per block, blocks separated by a line "----"; every other line is
// sent to the engine verbatim.

use std::io::{BufRead, Write};
use std::sync::{Arc, Mutex};

use crate::board::zkey::ZKey;
use crate::board::{Board, BoardBuilder};
use crate::h_proj::*;
use crate::Args;

fn tokens_json(line: &str) -> String {
    let v: Vec<String> = line
        .split_whitespace()
        .map(|t| chars_json(t))
        .collect();
    format!("[{}]", v.join(","))
}

/// Structure of a position line in the documented form `position startpos|fen F [moves ...]`
/// (F has four to six fields): (start, fen, moves, wellformed).
fn position_fields(line: &str) -> (String, String, Vec<String>, bool) {
    let t: Vec<&str> = line.split_whitespace().collect();
    let none = ("none".to_string(), String::new(), Vec::new(), false);
    if t.len() < 2 || t[0] != "position" {
        return none;
    }
    if t[1] == "startpos" {
        if t.len() == 2 {
            return ("startpos".into(), String::new(), Vec::new(), true);
        }
        if t[2] == "moves" {
            return ("startpos".into(), String::new(), t[3..].iter().map(|x| x.to_string()).collect(), true);
        }
        return ("startpos".into(), String::new(), Vec::new(), false);
    }
    if t[1] == "fen" {
        let rest = &t[2..];
        let n = rest.iter().take(6).position(|&x| x == "moves").unwrap_or(rest.len().min(6));
        if n < 4 {
            return none;
        }
        let fen = rest[..n].join(" ");
        if rest.len() == n {
            return ("fen".into(), fen, Vec::new(), true);
        }
        if rest[n] == "moves" {
            return ("fen".into(), fen, rest[n + 1..].iter().map(|x| x.to_string()).collect(), true);
        }
        return ("fen".into(), fen, Vec::new(), false);
    }
    none
}

/// Keys of the positions along `position ... moves ...` as the harness replays them on its own
/// board (used only to ask the session board which earlier positions it remembers).
fn prefix_keys(line: &str) -> Vec<ZKey> {
    let (start, fen, moves, wf) = position_fields(line);
    if !wf {
        return Vec::new();
    }
    let r = std::panic::catch_unwind(|| {
        let mut keys = Vec::new();
        let mut board = if start == "startpos" {
            BoardBuilder::construct_starting_board().build()
        } else {
            Board::from_fen(&fen)
        };
        keys.push(board.zkey);
        for m in &moves {
            match board.find_move(m) {
                Ok(p) => {
                    board.make_move(p);
                    keys.push(board.zkey);
                }
                Err(_) => break,
            }
        }
        keys
    });
    r.unwrap_or_default()
}

pub fn cmd_inproc(args: &Args) {
    let input = args.str("in", "work/uci/sessions.txt");
    let out = args.str("out", "work/uci/inproc.ndjson");
    crate::board::zkey::ZTable::init();
    std::panic::set_hook(Box::new(|_| {}));
    let text = std::fs::read_to_string(&input).expect("sessions file");
    let mut w = std::io::BufWriter::new(std::fs::File::create(&out).unwrap());
    writeln!(w, "{}", ztable_event()).unwrap();
    let mut nsess = 0usize;
    let mut ncmd = 0usize;
    for block in text.split("\n----\n") {
        let lines: Vec<String> = block
            .lines()
            .map(|l| l.to_string())
            .filter(|l| l.trim() != "----")
            .collect();
        if lines.iter().all(|l| l.trim().is_empty()) {
            continue;
        }
        nsess += 1;
        writeln!(w, "{{\"ev\":\"session\",\"n\":{nsess}}}").unwrap();
        let events: Arc<Mutex<Vec<String>>> = Arc::new(Mutex::new(Vec::new()));
        let ev2 = events.clone();
        // keys the harness wants the session board asked about (all prefix positions seen so far)
        let known: Arc<Mutex<Vec<ZKey>>> = Arc::new(Mutex::new(Vec::new()));
        let known2 = known.clone();
        crate::verif::set_observer(Box::new(move |line: &str, ok: bool, board: &Board| {
            let a = project_light(board);
            let mut kn = known2.lock().unwrap();
            for k in prefix_keys(line) {
                if !kn.contains(&k) {
                    kn.push(k);
                }
            }
            let hr: Vec<String> = kn
                .iter()
                .filter(|k| board.position_reached(**k))
                .map(|k| chunks(key_u64(*k)))
                .collect();
            let (start, fen, moves, wf) = position_fields(line);
            let mv: Vec<String> = moves.iter().map(|m| chars_json(m)).collect();
            ev2.lock().unwrap().push(format!(
                "{{\"ev\":\"cmd\",\"line\":{:?},\"tokens\":{},\"ok\":{ok},\"start\":\"{start}\",\"fenchars\":{},\"moves\":[{}],\"wellformed\":{wf},\"s\":{},\"hk\":[{}]}}",
                line,
                tokens_json(line),
                chars_json(&fen),
                mv.join(","),
                a.json(),
                hr.join(",")
            ));
        }));
        let mut script = lines.join("\n");
        script.push_str("\nquit\n");
        let r = std::panic::catch_unwind(|| {
            let mut rd = std::io::BufReader::new(script.as_bytes());
            crate::uci::verif_loop(&mut rd);
        });
        crate::verif::clear_observer();
        for e in events.lock().unwrap().iter() {
            ncmd += 1;
            writeln!(w, "{e}").unwrap();
        }
        if r.is_err() {
            writeln!(w, "{{\"ev\":\"panic\",\"where\":\"uci_loop session {nsess}\"}}").unwrap();
        }
    }
    w.flush().unwrap();
    println!("{{\"sessions\":{nsess},\"commands\":{ncmd}}}");
}
