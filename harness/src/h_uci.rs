use crate::Args;
pub fn cmd_inproc(_a: &Args) { unimplemented!() }
