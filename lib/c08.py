"""C08: `position` sets up exactly the described game, or nothing.
In-process sessions on the real uci_loop (harness uci-inproc) with the session board observed
after every command, validated by UciTrace.tla (TCmd); plus an end-to-end sample on the engine
process (position ... ; go depth 1 -> bestmove legal in the spec's session position)."""
import concurrent.futures as cf
import json
import os
import random
import shutil
import time

from engine import Engine, write_batch
from vlib import *
import uci_checks

FILES = 'abcdefgh'


def rand_move(rng):
    return '%s%d%s%d' % (rng.choice(FILES), rng.randint(1, 8), rng.choice(FILES), rng.randint(1, 8))


def corrupt(rng, moves):
    """single-token corruption of a move list"""
    if not moves:
        return ['zzzz'], 'garbage'
    i = rng.randrange(len(moves))
    m = moves[i]
    kind = rng.choice(['random', 'random', 'suffix+', 'suffix-', 'colour', 'garbage', 'upper', 'repeat'])
    out = list(moves)
    if kind == 'random':
        out[i] = rand_move(rng)
    elif kind == 'suffix+':
        out[i] = m[:4] + rng.choice('qrbnk')
    elif kind == 'suffix-':
        out[i] = m[:4]
        if len(m) == 4:
            out[i] = m[:3]
    elif kind == 'colour':
        # a move of the side not to move: the following move of the game played one ply early
        if i + 1 < len(moves):
            out[i] = moves[i + 1]
        else:
            out[i] = rand_move(rng)
    elif kind == 'garbage':
        out[i] = rng.choice(['zzzz', 'e2', 'e2e4e5', '0000', 'a9a1', 'i1i2', 'e2-e4', 'Nf3'])
    elif kind == 'upper':
        out[i] = m.upper()
    else:
        out.insert(i, m)       # the same move twice in a row
    return out, kind


def pos_line(start, moves, four=False, five=False, perm=None):
    if start != 'startpos' and four and start.split()[4:] == ['0', '1']:
        start = ' '.join(start.split()[:4])          # the same position as a 4-field FEN
    elif start != 'startpos' and five and len(start.split()) == 6:
        start = ' '.join(start.split()[:5])          # a 5-field FEN: half-move clock given, move number left to its default
    if start != 'startpos' and perm is not None and len(start.split()[2]) >= 2:
        f = start.split()
        flags = list(f[2])
        perm.shuffle(flags)                          # the castling flags in another order: the same rights
        f[2] = ''.join(flags)
        start = ' '.join(f)
    base = 'position startpos' if start == 'startpos' else 'position fen ' + start
    return base + (' moves ' + ' '.join(moves) if moves else '')


def make_session(rng, games):
    lines = []
    n = rng.randint(3, 9)
    last = None
    for _ in range(n):
        start, full, illegal = rng.choice(games)
        if last is not None and rng.random() < 0.35:
            # the same game again: repeated line, an extension, or a shorter list (with ucinewgame possibly in between)
            start, full, illegal = last
        last = (start, full, illegal)
        cut = rng.randint(0, min(len(full), 24))
        moves = full[:cut]
        r = rng.random()
        if illegal and len(full) <= 24 and r < 0.12:
            # a move that obeys the piece rules but leaves the king in check, at the end of the full list
            lines.append(pos_line(start, full + [rng.choice(illegal)]))
            continue
        if r < 0.2:
            # GUI style: growing prefixes of the same game
            step = rng.choice([1, 2, 3])
            for k in range(0, len(moves) + 1, step):
                lines.append(pos_line(start, moves[:k]))
        elif r < 0.5:
            lines.append(pos_line(start, moves, four=rng.random() < 0.3, five=rng.random() < 0.3, perm=rng if rng.random() < 0.3 else None))
        elif r < 0.85:
            bad, kind = corrupt(rng, moves)
            lines.append(pos_line(start, bad))
        elif r < 0.92:
            lines.append('ucinewgame')
            if rng.random() < 0.6:
                lines.append(pos_line(start, full[:rng.randint(0, min(len(full), 24))]))
        else:
            lines.append(rng.choice(['isready', 'uci', 'xyzzy', 'stop', 'position', 'position fen']))
    return lines


def load_games(seed, n):
    p = run_harness(['games', '--seed', seed, '--n', n, '--plies', 40, '--seeds', os.path.join(ROOT, 'seeds')])
    games = []
    for l in p.stdout.split('\n'):
        if '|' in l:
            parts = l.split('|')
            games.append((parts[0], parts[1].split(), parts[2].split() if len(parts) > 2 else []))
    return games


def run(prop, tier, seed, verdict, cov):
    rng = random.Random(seed)
    nsess = 300 if tier == 'quick' else 12000
    games = load_games(seed, 200 if tier == 'quick' else 4000)
    # a few long games (well over a hundred moves) given in one command
    p_long = run_harness(['games', '--seed', seed + 7, '--n', 3 if tier == 'quick' else 40, '--plies', 260, '--seeds', os.path.join(ROOT, 'seeds')])
    long_games = [(l.split('|')[0], l.split('|')[1].split()) for l in p_long.stdout.split('\n') if '|' in l]
    long_games = [g for g in long_games if len(g[1]) >= 100]
    d = fresh_dir('c08-%d' % os.getpid())
    sessions = [make_session(rng, games) for _ in range(nsess)]
    for start, moves in long_games:
        sessions.append([pos_line(start, moves), pos_line(start, moves[:-1] + ['zzzz']), 'isready'])
    nsess = len(sessions)
    per = max(8, nsess // (3 * max(1, NCPU - 2)))
    per = min(per, 40)
    files = []
    t0 = time.time()
    for i in range(0, nsess, per):
        src = os.path.join(d, 'sess-%04d.txt' % (i // per))
        with open(src, 'w') as f:
            f.write('\n----\n'.join('\n'.join(s) for s in sessions[i:i + per]) + '\n')
        out = os.path.join(d, 'inproc-%04d.ndjson' % (i // per))
        run_harness(['uci-inproc', '--in', src, '--out', out])
        # UciTrace expects a meta line after the table
        lines = open(out).read().split('\n')
        lines.insert(1, json.dumps({'ev': 'meta', 'maxgo': 1, 'maxcmds': 1}))
        open(out, 'w').write('\n'.join(lines))
        files.append(out)
    log('[C08] %d in-process sessions recorded in %.1fs' % (nsess, time.time() - t0))
    with cf.ThreadPoolExecutor(max_workers=max(1, NCPU - 2)) as ex:
        results = list(ex.map(lambda f: uci_checks.validate_uci(f, 'C08'), files))
    ncmd = 0
    ntok = 0
    refused = 0
    distinct = set()
    for s in sessions:
        for l in s:
            ncmd += 1
            distinct.add(l)
            ntok += max(0, len(l.split()) - 3)
    for r in results:
        if r['status'] == 'error':
            log(r.get('detail', '')[-3000:])
            raise ToolError('UciTrace failed to run on %s' % r['file'])
        cov['states'] = cov.get('states', 0) + r['states']
        cov['transitions'] = cov.get('transitions', 0) + r['generated']
        if r['status'] == 'accept':
            cov['traces_validated_against_impl'] = cov.get('traces_validated_against_impl', 0) + 1
        else:
            evs = uci_checks.session_of(r['file'], r['line'])
            # the unmatched event is the one after the matched prefix
            allev = read_events(r['file'], r['line'])
            bad = allev[-1] if allev else {}
            desc = uci_checks.describe(evs)
            sig = {'kind': 'session-rejected', 'mode': 'C08', 'unmatched': bad.get('line', bad.get('ev')),
                   'sends': [x[2:] for x in desc if x.startswith('> ')][-6:]}
            verdict.report(sig, {'how': 'session position observed in the real uci_loop differs from UciTrace.tla / Chess.tla',
                                 'unmatched_event': {k: bad.get(k) for k in ('line', 'ok', 's', 'hk')}, 'session': desc},
                           trace_src=r['file'], cut_line=r['line'])
    for f in files:
        for line in open(f):
            if '"ev":"cmd"' in line and '"ok":false' in line:
                refused += 1

    # end-to-end sample through the real process I/O
    fens = uci_checks.legal_positions()
    e2e = []
    n_e2e = 12 if tier == 'quick' else 300

    def one(s):
        r = random.Random(s)
        e = Engine()
        try:
            for _ in range(3):
                start, moves, _ill = r.choice(games)
                moves = moves[:r.randint(0, min(len(moves), 16))]
                if r.random() < 0.4:
                    moves, _ = corrupt(r, moves)
                e.send(pos_line(start, moves))
                e.send('go depth 1')
                if e.wait_for('bestmove', 20000) is None:
                    e.log({'ev': 'deadline', 'what': 'bestmove', 't': e.now()})
                    return e.events
            e.send('quit')
            e.wait_exit(2500)
            return e.events
        finally:
            e.kill()
    with cf.ThreadPoolExecutor(max_workers=4) as ex:
        e2e = list(ex.map(one, [rng.randrange(1 << 30) for _ in range(n_e2e)]))
    # drop sessions whose last position has no legal move (bestmove 0000 is then correct and outside the property)
    e2e = [s for s in e2e if not any(ev.get('ev') == 'recv' and ev.get('kind') == 'bestmove' and ''.join(ev.get('mv', [])) == '0000' for ev in s)]
    p = os.path.join(d, 'e2e.ndjson')
    write_batch(p, e2e)
    r = uci_checks.validate_uci(p, 'C09')
    if r['status'] == 'error':
        log(r.get('detail', '')[-3000:])
        raise ToolError('UciTrace failed on the end-to-end batch')
    cov['states'] += r['states']
    cov['transitions'] += r['generated']
    if r['status'] == 'accept':
        cov['traces_validated_against_impl'] += 1
    else:
        evs = uci_checks.session_of(p, r['line'])
        desc = uci_checks.describe(evs)
        verdict.report({'kind': 'e2e-rejected', 'mode': 'C08', 'sends': [x[2:] for x in desc if x.startswith('> ')][-4:],
                        'unmatched': desc[-1] if desc else ''},
                       {'how': 'bestmove after position+go depth 1 is not legal in the spec session position', 'session': desc},
                       trace_src=p, cut_line=r['line'])

    # self-test: a recorded session position with one square changed must be rejected
    if not verdict.violations:
        src = files[0]
        lines = open(src).read().split('\n')
        idx = [i for i, l in enumerate(lines) if '"ev":"cmd"' in l and '"ok":true' in l and 'moves' in l]
        if not idx:
            raise ToolError('self-test: no accepted position command in the first batch')
        i = idx[len(idx) // 2]
        ev = json.loads(lines[i])
        ev['s']['t'] = 1 - ev['s']['t']
        lines[i] = json.dumps(ev, separators=(',', ':'))
        cp = os.path.join(d, 'selftest.ndjson')
        open(cp, 'w').write('\n'.join(lines))
        r = uci_checks.validate_uci(cp, 'C08')
        if r['status'] != 'reject' or r['line'] != i + 1:
            raise ToolError('self-test failed: corrupted session state at line %d not rejected there (%s)' % (i + 1, r))
        cov['selftest'] = 'side to move flipped in the recorded session state at line %d: rejected' % (i + 1)

    cov['evaluations'] = ncmd
    cov['sessions'] = nsess
    cov['move_tokens'] = ntok
    cov['commands_refused_by_engine'] = refused
    cov['distinct_nontrivial'] = len(distinct)
    cov['end_to_end_sessions'] = len(e2e)
    cov['samples'] = [sessions[0][:6]]
    return sessions, d
