"""Checks C01-C05, C07, C17: Chess.tla as oracle, ChessTrace.tla as trace validator,
MCChess/MCPerft as bounded exhaustive model checking, ChessGen for spec->impl replay."""
import hashlib
import json
import os
import random
import re
import shutil
import time

from vlib import *

# per property: generators, events per tier, harness knobs
PLAN = {
    'C01': dict(mix='g1,g2,g3,g4,g5', quick=18000, thorough=900000, extra=['--probe-mode', 'none'], gen=True),
    'C02': dict(mix='g4,g5,g5,g2', quick=40000, thorough=2000000, extra=['--probe-mode', 'none']),
    'C03': dict(mix='g1,g2,g4,g8,g3', quick=40000, thorough=2000000, extra=['--probe-mode', 'none'], gen=True),
    'C04': dict(mix='g1,g2,g5,g6,g6,g8', quick=40000, thorough=2000000, extra=['--probe-mode', 'all']),
    'C05': dict(mix='g1,g2,g5,g6', quick=40000, thorough=2000000, extra=['--probe-mode', 'perturb']),
    'C07': dict(mix='g8,g8,g2,g3', quick=30000, thorough=1500000, extra=['--probe-mode', 'fen']),
    'C17': dict(mix='g1,g2,g9,g9,g10,g10,g10', quick=30000, thorough=1500000, extra=['--probe-mode', 'eval', '--no-queries']),
}

PERFT_CFG = 'INIT Init\nNEXT Next\nCHECK_DEADLOCK FALSE\nCONSTANT Deep = %s\n'

MC_CFG = '''SPECIFICATION Spec
CONSTANTS
  MaxDepthStart = %d
  MaxDepthSeed = %d
  HeavyChecks = %s
VIEW View
INVARIANT Invariants
PROPERTIES RightsOnlyShrink RightLostExactly EpExactly ClockRule HistoryGrows
CHECK_DEADLOCK FALSE
'''


def posid(s):
    return (tuple(s['b']), s['t'], tuple(s['c']), s['ep'])


def game_of(events, line):
    """The operations of the game that contains 1-based line `line` (for signatures / replays)."""
    start = None
    for i in range(line - 1, -1, -1):
        if i < len(events) and events[i].get('ev') == 'load':
            start = i
            break
    if start is None:
        return {'fen': None, 'ops': []}
    ops = []
    for e in events[start + 1:line]:
        ev = e.get('ev')
        if ev == 'make':
            m = e['mv']
            sq = lambda s: 'abcdefgh'[s % 8] + str(s // 8 + 1)
            ops.append(sq(m[0]) + sq(m[1]) + {0: '', 2: 'n', 3: 'b', 4: 'r', 5: 'q'}[m[2]])
        elif ev in ('unmake', 'query'):
            ops.append(ev)
        elif ev == 'probe':
            ops.append('probe:' + e.get('kind', ''))
    return {'fen': events[start].get('fen'), 'ops': ops}


def nontrivial_stats(files, mode):
    """Measured coverage numbers from the batches themselves."""
    distinct = set()
    nontriv = set()
    kinds = {}
    samples = []
    n = 0
    for f in files:
        prev = None
        for line in open(f):
            e = json.loads(line)
            ev = e.get('ev')
            kinds[ev] = kinds.get(ev, 0) + 1
            if ev in ('ztable', 'panic'):
                continue
            n += 1
            if ev == 'twin':
                pid = posid(e['a'])
                distinct.add(pid)
                if mode == 'C07':
                    nontriv.add(('twin', pid))
                continue
            s = e['s']
            pid = posid(s)
            distinct.add(pid)
            lm = s.get('lm') or []
            special = any(m[3] != 0 or m[2] != 0 for m in lm) or 1 in s['chk']
            if mode == 'C01' and 'lm' in s and special:
                nontriv.add(pid)
            elif mode == 'C02' and ev in ('unmake', 'query') and (e.get('hr') or ev == 'unmake'):
                nontriv.add((ev, pid))
            elif mode == 'C03' and ev == 'make' and prev is not None and (
                    prev['c'] != s['c'] or s['ep'] != -1 or prev['ep'] != -1 or s['h'] == 0 or e.get('hr')):
                nontriv.add(pid)
            elif mode in ('C04', 'C05'):
                nontriv.add(pid)
            elif mode == 'C07' and ev in ('load', 'probe'):
                nontriv.add(e.get('fen'))
            elif mode == 'C17' and ev == 'probe' and e.get('kind') in ('mirror', 'swap') and s['e'] != 0:
                nontriv.add((e['kind'], pid))
            if ev in ('load', 'make', 'unmake', 'query'):
                prev = s
            if len(samples) < 3 and ev in ('make', 'unmake', 'probe') and n % 97 == 0:
                samples.append(trim_event(e, 500))
    return {'events': n, 'distinct_positions': len(distinct), 'distinct_nontrivial': len(nontriv),
            'kinds': kinds, 'samples': samples}


def corrupt_batch(src, dst, mode, rng):
    """Sensitivity self-test input: one recorded field of one event is changed. Returns expected line or 'end'."""
    lines = open(src).read().split('\n')
    if lines and lines[-1] == '':
        lines.pop()
    evs = [json.loads(x) for x in lines]
    idx = list(range(1, len(evs)))
    rng.shuffle(idx)
    target = None
    for i in idx:
        e = evs[i]
        ev = e.get('ev')
        if mode == 'C01' and ev in ('make', 'load') and len(e['s'].get('lm', [])) >= 2:
            e['s']['lm'].pop()
            target = i + 1
        elif mode == 'C02' and ev == 'unmake':
            e['s']['h'] += 1
            target = i + 1
        elif mode == 'C03' and ev == 'make':
            e['s']['f'] += 1
            target = i + 1
        elif mode == 'C04' and ev in ('make', 'unmake'):
            e['s']['k'][3] ^= 1
            e['s']['fk'][3] ^= 1
            target = i + 1
        elif mode == 'C05' and ev == 'make':
            # force a collision: give this position the key of a different earlier position
            for j in range(1, i):
                o = evs[j]
                if o.get('ev') in ('make', 'load') and posid(o['s']) != posid(e['s']):
                    e['s']['k'] = list(o['s']['k'])
                    e['s']['fk'] = list(o['s']['k'])
                    target = 'end'
                    break
        elif mode == 'C07' and ev == 'load':
            e['s']['c'][1] = 1 - e['s']['c'][1]
            target = i + 1
        elif mode == 'C17' and ev == 'probe' and e.get('kind') in ('mirror', 'swap'):
            e['s']['e'] += 100
            target = i + 1
        if target is not None:
            break
    if target is None:
        return None
    with open(dst, 'w') as f:
        for e in evs:
            f.write(json.dumps(e, separators=(',', ':')) + '\n')
    return target


def run_mc(prop, tier, cov):
    """Model-checking step (exhaustive, small constants). Independent of the Rust code; a failure here
    means the specification itself is inconsistent => tool error, not a violation."""
    if tier == 'quick':
        cfg = MC_CFG % (2, 1, 'TRUE')
    else:
        cfg = MC_CFG % (3, 2, 'FALSE')
    r = model_check('MCChess.tla', cfg, 'mcchess-%s-%d' % (prop, os.getpid()), timeout=3000)
    if not r['ok']:
        log(r['out'][-3000:])
        raise ToolError('MCChess: the specification violates its own invariants (spec bug)')
    cov['states'] = cov.get('states', 0) + r['distinct']
    cov['transitions'] = cov.get('transitions', 0) + r['generated']
    cov['mc'] = {'MCChess': {'distinct_states': r['distinct'], 'states_generated': r['generated'],
                             'bounds': 'start position to depth %s, %s seeds to depth %s' %
                             (('2', '68', '1') if tier == 'quick' else ('3', '68', '2'))}}
    if prop in ('C02', 'C03', 'C04'):
        # the implementation-shaped model of make/unmake refines Chess.tla (position, key, remembered positions)
        EB = 'SPECIFICATION ESpec\nCONSTANTS\n  MaxDepth = %d\n  HistIsSet = %s\n  SeedSet = "%s"\nINVARIANT Refinement\nCHECK_DEADLOCK FALSE\n'
        runs = [('start', 3 if tier == 'quick' else 4, 'FALSE', True), ('corner', 2 if tier == 'quick' else 3, 'FALSE', True),
                ('tiny', 4 if tier == 'quick' else 6, 'FALSE', True), ('tiny', 5, 'TRUE', False)]
        for seedset, depth, legacy, expect_ok in runs:
            r2 = model_check('EngineBoard.tla', EB % (depth, legacy, seedset), 'engboard-%s-%s-%s-%d' % (prop, seedset, legacy, os.getpid()), timeout=3000)
            if expect_ok and not r2['ok']:
                log(r2['out'][-3000:])
                raise ToolError('EngineBoard.tla: the implementation-shaped make/unmake does not refine Chess.tla (spec bug)')
            if not expect_ok and r2['ok']:
                raise ToolError('model sensitivity: legacy HistIsSet produced no counterexample')
            if expect_ok:
                cov['states'] += r2['distinct']
                cov['transitions'] += r2['generated']
                cov['mc']['EngineBoard %s depth %d' % (seedset, depth)] = {'distinct_states': r2['distinct'], 'states_generated': r2['generated'],
                                                                           'invariant': 'Refinement (position, key, remembered positions, stack depth)'}
            else:
                cov['mc']['EngineBoard legacy HistIsSet'] = 'counterexample found (the pinned HashSet forgets an earlier occurrence on take-back)'
    if prop == 'C01':
        p = model_check('MCPerft.tla', PERFT_CFG % ('FALSE' if tier == 'quick' else 'TRUE'),
                        'mcperft-%d' % os.getpid(), workers=2, timeout=3000)
        if not p['ok']:
            log(p['out'][-3000:])
            raise ToolError('MCPerft: the specification does not reproduce the published perft numbers (spec bug)')
        cov['mc']['MCPerft'] = 'published perft numbers reproduced by Chess.tla!Legal/Apply'


def gen_replay(prop, tier, seed, verdict, cov):
    """spec -> impl: TLC enumerates every position within k plies of the seeds together with
    Legal(st) and InCheck; the harness walks each path through the real Board and compares."""
    d = fresh_dir('gen-%s-%d' % (prop, os.getpid()))
    depth_start, depth_seed = (2, 1) if tier == 'quick' else (3, 2)
    cfg = ('SPECIFICATION GSpec\nCONSTANTS\n  MaxDepthStart = %d\n  MaxDepthSeed = %d\nVIEW GView\n'
           'CHECK_DEADLOCK FALSE\nINVARIANT Emit\n') % (depth_start, depth_seed)
    out_file = os.path.join(d, 'gen.ndjson')
    rc, out = run_tlc('ChessGen.tla', cfg, 'chessgen-%d' % os.getpid(), workers=max(2, NCPU - 2), timeout=3000)
    if 'Model checking completed. No error has been found.' not in out:
        log(out[-3000:])
        raise ToolError('ChessGen did not complete')
    n = 0
    import gen_seeds
    fens = ['startpos'] + gen_seeds.read('corner.fen') + gen_seeds.read('perft.fen')
    with open(out_file, 'w') as f:
        for js in re.findall(r'<<\s*"GEN",\s*"(.*?)"\s*>>', out, re.S):
            # TLC prints the JSON string inside a tuple: <<"GEN", "....">>
            js = js.replace('\\"', '"').replace('\\\\', '\\')
            rec = json.loads(js)
            rec['fen'] = fens[rec['seed'] - 1]
            f.write(json.dumps(rec, separators=(',', ':')) + '\n')
            n += 1
    gen, dist = mc_stats(out)
    p = run_harness(['chess-replay', '--in', out_file, '--out', os.path.join(d, 'res.json')])
    res = json.load(open(os.path.join(d, 'res.json')))
    if res['behaviours'] != n and not res['mismatches']:
        raise ToolError('replay consumed %s of %s behaviours' % (res['behaviours'], n))
    cov['states'] = cov.get('states', 0) + dist
    cov['transitions'] = cov.get('transitions', 0) + gen
    cov['spec_to_impl'] = {'behaviours_replayed': res['behaviours'], 'nontrivial': res['nontrivial'],
                           'bounds': 'all positions within %d plies of the start position and %d of each seed'
                           % (depth_start, depth_seed)}
    for mm in res['mismatches']:
        verdict.report({'kind': 'spec-to-impl', 'fen': mm['fen'], 'path': mm['path'], 'what': mm['what']},
                       {'how': 'TLC-generated behaviour replayed into the engine', 'mismatch': mm})
    shutil.rmtree(d, ignore_errors=True)
    return res['behaviours']


def merged_key_check(prop, files, verdict, cov):
    """C04/C05 across batches: one TLC evaluation over all (position digest, key) pairs of the run."""
    pairs = {}
    full = {}
    for f in files:
        for line in open(f):
            e = json.loads(line)
            if e.get('ev') in ('load', 'make', 'unmake', 'query', 'probe'):
                s = e['s']
                pid = posid(s)
                dg = hashlib.md5(repr(pid).encode()).digest()
                d4 = tuple(int.from_bytes(dg[2 * i:2 * i + 2], 'big') for i in range(4))
                pairs[(d4, tuple(s['k']))] = True
                full.setdefault(d4, pid)
    d = fresh_dir('merge-%s-%d' % (prop, os.getpid()))
    path = os.path.join(d, 'pairs.json')
    with open(path, 'w') as fo:
        json.dump([list(a) + list(b) for (a, b) in pairs.keys()], fo)
    cfg = 'INIT Init\nNEXT Next\nCHECK_DEADLOCK FALSE\n'
    rc, out = run_tlc('KeyMerge.tla', cfg, 'keymerge-%d' % os.getpid(), workers=1, timeout=3000,
                      env_extra={'PAIRS': path}, jvm='-XX:ParallelGCThreads=4 -Xms2g -Xmx24g -Xss512m')
    m = re.search(r'<<\s*"MERGE",\s*(\d+),\s*(\d+),\s*(\d+)\s*>>', out, re.S)
    if not m:
        log(out[-2000:])
        raise ToolError('KeyMerge did not report')
    npairs, ndig, nkeys = int(m.group(1)), int(m.group(2)), int(m.group(3))
    cov['merged_pairs'] = {'pairs': npairs, 'distinct_positions': ndig, 'distinct_keys': nkeys}
    # re-examine on full PosIds before reporting (a collision of the digest must not become an alarm)
    if prop == 'C04' and npairs != ndig:
        by = {}
        for (d4, k) in pairs:
            by.setdefault(d4, set()).add(k)
        bad = [d4 for d4, ks in by.items() if len(ks) > 1]
        for d4 in bad[:3]:
            verdict.report({'kind': 'same-position-different-keys', 'position': list(map(list, [full[d4][0]]))[0],
                            'keys': sorted(map(list, by[d4]))},
                           {'how': 'merged (position, key) pairs of all batches'})
    if prop == 'C05' and npairs != nkeys:
        by = {}
        for (d4, k) in pairs:
            by.setdefault(k, set()).add(d4)
        for k, ds in by.items():
            pids = {full[d4] for d4 in ds}
            if len(pids) > 1:
                verdict.report({'kind': 'different-positions-same-key', 'key': list(k)},
                               {'how': 'merged (position, key) pairs of all batches',
                                'positions': [list(p[0]) + [p[1], list(p[2]), p[3]] for p in list(pids)[:2]]})
                break
    shutil.rmtree(d, ignore_errors=True)


def run(prop, tier, seed):
    t0 = time.time()
    plan = PLAN[prop]
    verdict = Verdict(prop, seed)
    cov = {'states': 0, 'transitions': 0, 'traces_validated_against_impl': 0}
    build_harness()

    # model checking (spec level)
    run_mc(prop, tier, cov)

    # impl -> spec
    total = plan[tier]
    per_batch = 1500
    chunk_events = 28 * per_batch if prop == 'C01' else 60 * per_batch
    done = 0
    chunk_no = 0
    judged = skipped = 0
    stats_acc = {'events': 0, 'distinct_positions': 0, 'distinct_nontrivial': 0, 'kinds': {}, 'samples': []}
    all_files_for_merge = []
    first_batch_for_selftest = None
    d = fresh_dir('trace-%s-%d' % (prop, os.getpid()))
    rejected = False
    while done < total and not rejected:
        n = min(chunk_events, total - done)
        cdir = os.path.join(d, 'c%03d' % chunk_no)
        args = ['chess-trace', '--seed', seed * 1000 + chunk_no, '--events', n, '--batch', per_batch,
                '--outdir', cdir, '--seeds', os.path.join(ROOT, 'seeds'), '--mix', plan['mix']] + plan['extra']
        if tier == 'thorough' and prop == 'C01' and chunk_no == 0:
            args += ['--g3-all']
        p = run_harness(args)
        info = json.loads(p.stdout.strip().split('\n')[-1])
        files = info['files']
        done += info['events']
        results = validate_many(files, prop)
        st = nontrivial_stats(files, prop)
        for k in ('events', 'distinct_positions', 'distinct_nontrivial'):
            stats_acc[k] += st[k]
        for k, v in st['kinds'].items():
            stats_acc['kinds'][k] = stats_acc['kinds'].get(k, 0) + v
        if len(stats_acc['samples']) < 3:
            stats_acc['samples'] += st['samples'][:3 - len(stats_acc['samples'])]
        for r in results:
            if r['status'] == 'error':
                log(r.get('detail', '')[-3000:])
                raise ToolError('trace validation failed to run on %s' % r['file'])
            cov['states'] += r.get('states', 0)
            cov['transitions'] += max(0, r.get('states', 0) - 1)
            if r['status'] == 'accept':
                cov['traces_validated_against_impl'] += 1
                judged += r['nums'][1]
                skipped += r['nums'][2]
            else:
                rejected = True
                evs = read_events(r['file'], r['line'] if isinstance(r['line'], int) else None)
                g = game_of(evs, min(r['line'], len(evs)))
                sig = {'kind': 'trace-rejected', 'mode': prop, 'event': r['ev'], 'fails': r['fails'],
                       'fen': g['fen'], 'ops': g['ops']}
                verdict.report(sig, {'how': 'engine trace rejected by ChessTrace.tla', 'line': r['line'],
                                     'generator': args, 'batch': os.path.basename(r['file'])},
                               trace_src=r['file'], cut_line=r['line'])
        if first_batch_for_selftest is None and files:
            first_batch_for_selftest = os.path.join(d, 'selftest-src.ndjson')
            shutil.copy(files[0], first_batch_for_selftest)
        if prop in ('C04', 'C05') and tier == 'quick':
            all_files_for_merge += files
        elif prop in ('C04', 'C05'):
            # thorough: merge at most the first 120 batches' pairs (memory), the rest are checked per batch
            if len(all_files_for_merge) < 120:
                all_files_for_merge += files
            else:
                shutil.rmtree(cdir, ignore_errors=True)
        else:
            shutil.rmtree(cdir, ignore_errors=True)
        chunk_no += 1

    if prop in ('C04', 'C05') and not rejected:
        merged_key_check(prop, all_files_for_merge, verdict, cov)

    # spec -> impl
    if plan.get('gen') and not rejected:
        gen_replay(prop, tier, seed, verdict, cov)

    # sensitivity self-test: a corrupted field must be rejected
    selftest = 'skipped (violation already found)'
    if not rejected and first_batch_for_selftest:
        rng = random.Random(seed)
        cpath = os.path.join(d, 'selftest-corrupt.ndjson')
        target = corrupt_batch(first_batch_for_selftest, cpath, prop, rng)
        if target is None:
            raise ToolError('self-test: no event suitable for corruption in the first batch')
        r = validate_trace(cpath, prop)
        if r['status'] != 'reject' or (target != 'end' and r['line'] != target) or (target == 'end' and r['ev'] != 'end'):
            raise ToolError('self-test failed: corrupted batch (line %s) was not rejected there: %s' % (target, r))
        selftest = 'corrupted field at line %s rejected with %s' % (target, r['fails'])
    shutil.rmtree(d, ignore_errors=True)

    cov.update({
        'evaluations': stats_acc['events'],
        'events_judged': judged,
        'events_out_of_scope': skipped,
        'distinct_positions': stats_acc['distinct_positions'],
        'distinct_nontrivial': stats_acc['distinct_nontrivial'],
        'event_kinds': stats_acc['kinds'],
        'rule': RULES[prop],
        'samples': stats_acc['samples'] or ['(no sample)'],
        'selftest': selftest,
        'checker_cmd': 'tlc -workers 1 -config <Mode=%s> spec/ChessTrace.tla (TRACE=<batch>), tlc spec/MCChess.tla' % prop,
        'trusted_base': ['TLC 1.8 + CommunityModules', 'harness projection h_proj.rs', 'harness FEN writer (parsed by the spec)'],
    })
    write_evidence(prop, tier, seed, 'model_checking', cov, ASSUME[prop], time.time() - t0, len(verdict.violations))
    return verdict.exit_code()


RULES = {
    'C01': 'events = engine API returns (load/make/unmake/query) each carrying the full legal-move list and both check answers, '
           'from generators g1 (biased playouts), g2 (seed suites), g3 (castling family), g4 (shuffles), g5 (make/unmake walks); '
           'distinct = distinct (placement, turn, rights, ep); non-trivial = position offering a castling, en-passant, promotion or '
           'double-push move, or with a king in check',
    'C02': 'unmake and query events from shuffle games (repeating positions) and stack-disciplined random walks; non-trivial = '
           'distinct (event kind, position) at unmake events or at queries with a non-empty repetition record',
    'C03': 'make events along playouts (incl. FEN starts with clocks near 100 and move numbers up to 6000); non-trivial = distinct positions '
           'after a move that changes rights / en-passant file / resets the clock, or with a non-empty repetition record',
    'C04': 'every event after every make and unmake plus FEN probes of the same positions; distinct = distinct positions; also transposing move orders (g6)',
    'C05': 'every event plus single-component perturbation probes (piece on a square, side to move, one castling right, en-passant file); '
           'distinct = distinct positions whose keys are compared pairwise (as set cardinalities)',
    'C07': 'FEN loads (6- and 4-field, clocks 0..150, move numbers 1..6000, all rights subsets in the castling family, ep squares) and '
           'played/FEN twin boards observed side by side; non-trivial = distinct FEN strings / twin positions',
    'C17': 'mirror and side-swap probes of visited positions; non-trivial = distinct probed positions with a material imbalance',
}

ASSUME = {p: ['positions are reached through the engine API (from_fen / make_move / unmake_move) as recorded by the harness',
              'the projection reads the public API plus the cfg(rce_verif) en-passant accessor',
              'beyond the bounded models the claim is: held on every recorded event'] for p in PLAN}
