"""Controller for the instrumented engine process (rce-verif engine): sends lines, reads stdout
and stderr through raw file descriptors, and records everything the GUI can see as events for
spec/UciTrace.tla. All times are monotonic milliseconds since the start of the session."""
import json
import os
import select
import subprocess
import time

from vlib import HARNESS

FILES = 'abcdefgh'


def chars(s):
    return list(s)


def classify_stderr(line):
    if 'Search is already running' in line:
        return 'refused'
    if 'panicked' in line or 'RUST_BACKTRACE' in line or line.startswith('thread '):
        return 'panic'
    return 'error'


def parse_go(tokens):
    """limits of a well-formed go line (tokens after 'go')"""
    lim = {'depth': -1, 'nodes': -1, 'movetime': -1, 'wtime': -1, 'btime': -1, 'winc': -1, 'binc': -1}
    i = 0
    inf = False
    while i < len(tokens):
        t = tokens[i]
        if t == 'infinite':
            inf = True
        elif t in lim and i + 1 < len(tokens):
            lim[t] = int(tokens[i + 1])
            i += 1
        i += 1
    if inf:
        lim = {k: -1 for k in lim}
    return lim, inf or all(v == -1 for v in lim.values())


def position_fields(tokens):
    """tokens of a position line -> (start, fenchars, moves, wellformed) in the engine's accepted form"""
    if len(tokens) >= 2 and tokens[1] == 'startpos':
        if len(tokens) == 2:
            return 'startpos', [], [], True
        if tokens[2] == 'moves':
            return 'startpos', [], [chars(m) for m in tokens[3:]], True
        return 'startpos', [], [], False
    if len(tokens) >= 2 and tokens[1] == 'fen':
        rest = tokens[2:]
        n = rest.index('moves') if 'moves' in rest[:6] else min(len(rest), 6)
        if n < 4:
            return 'none', [], [], False
        fen = ' '.join(rest[:n])
        if len(rest) == n:
            return 'fen', chars(fen), [], True
        if rest[n] == 'moves':
            return 'fen', chars(fen), [chars(m) for m in rest[n + 1:]], True
        return 'fen', chars(fen), [], False
    return 'none', [], [], False


def parse_info(line):
    toks = line.split()
    ev = {'kind': 'info', 'tokens': [chars(t) for t in toks], 'depth': -1, 'pv': []}
    try:
        if 'depth' in toks:
            ev['depth'] = int(toks[toks.index('depth') + 1])
    except (ValueError, IndexError):
        pass
    if 'pv' in toks:
        ev['pv'] = [chars(t) for t in toks[toks.index('pv') + 1:]]
    return ev


class Engine:
    def __init__(self, env=None, cmd=None):
        self.t0 = time.monotonic()
        e = dict(os.environ)
        e['RUST_BACKTRACE'] = '0'
        if env:
            e.update(env)
        self.p = subprocess.Popen(cmd or [HARNESS, 'engine'], stdin=subprocess.PIPE, stdout=subprocess.PIPE,
                                  stderr=subprocess.PIPE, env=e, bufsize=0)
        self.fd_out = self.p.stdout.fileno()
        self.fd_err = self.p.stderr.fileno()
        os.set_blocking(self.fd_out, False)
        os.set_blocking(self.fd_err, False)
        self.buf = {self.fd_out: b'', self.fd_err: b''}
        self.eof = {self.fd_out: False, self.fd_err: False}
        self.events = []
        self.pending = []          # parsed recv events not yet handed to a waiter
        self.out_lines = 0
        self.flood = False
        self.exited = False

    def now(self):
        return int((time.monotonic() - self.t0) * 1000)

    def log(self, ev):
        self.events.append(ev)

    # ---- output side ----
    def _pump(self, timeout):
        fds = [fd for fd in (self.fd_out, self.fd_err) if not self.eof[fd]]
        if not fds:
            time.sleep(min(timeout, 0.01))
            return
        r, _, _ = select.select(fds, [], [], timeout)
        for fd in r:
            try:
                data = os.read(fd, 65536)
            except BlockingIOError:
                continue
            if not data:
                self.eof[fd] = True
                continue
            self.buf[fd] += data
            while b'\n' in self.buf[fd]:
                line, self.buf[fd] = self.buf[fd].split(b'\n', 1)
                self._line(fd, line.decode('utf-8', 'replace').rstrip('\r'))

    def _line(self, fd, line):
        t = self.now()
        if fd == self.fd_err:
            self.err_lines = getattr(self, 'err_lines', 0) + 1
            if self.err_lines > 300:
                if not self.flood:
                    self.flood = True
                    self.log({'ev': 'deadline', 'what': 'stderr-flood', 't': t})
                return
            if line.strip():
                k = classify_stderr(line)
                # keep only the first line of a multi-line panic message
                if k == 'panic' and self.events and self.events[-1].get('ev') == 'stderr' and self.events[-1]['kind'] == 'panic':
                    return
                self.log({'ev': 'stderr', 'kind': k, 'line': line[:200], 't': t})
            return
        self.out_lines += 1
        if self.out_lines > 5000:
            if not self.flood:
                self.flood = True
                self.log({'ev': 'deadline', 'what': 'output-flood', 't': t})
            return
        if line.startswith('bestmove'):
            toks = line.split()
            ev = {'ev': 'recv', 'kind': 'bestmove', 'mv': chars(toks[1]) if len(toks) > 1 else [], 'line': line, 't': t}
        elif line.strip() == 'readyok':
            ev = {'ev': 'recv', 'kind': 'readyok', 't': t}
        elif line.startswith('info'):
            ev = dict(parse_info(line), ev='recv', line=line, t=t)
        else:
            ev = {'ev': 'recv', 'kind': 'other', 'line': line[:200], 't': t}
        self.log(ev)
        self.pending.append(ev)

    def wait_for(self, kind, timeout_ms):
        """Wait until a line of the given kind has been received; returns the event or None."""
        deadline = time.monotonic() + timeout_ms / 1000.0
        mark = len(self.events)
        while True:
            # a panicked thread will not answer any more: stop waiting 200 ms after the message
            for ev in self.events[mark:]:
                if ev.get('ev') == 'stderr' and ev.get('kind') == 'panic' and kind == 'bestmove':
                    deadline = min(deadline, time.monotonic() + 0.2)
                    mark = len(self.events)
                    break
            for i, ev in enumerate(self.pending):
                if ev['kind'] == kind:
                    del self.pending[:i + 1]
                    return ev
            self.pending = [e for e in self.pending if e['kind'] in ('bestmove', 'readyok')]
            left = deadline - time.monotonic()
            if left <= 0 or self.flood:
                return None
            if self.p.poll() is not None and self.eof[self.fd_out]:
                return None
            self._pump(min(left, 0.05))

    def drain(self, ms):
        end = time.monotonic() + ms / 1000.0
        while time.monotonic() < end:
            self._pump(max(0.0, min(0.02, end - time.monotonic())))

    # ---- input side ----
    def send(self, line, cls=None, extra=None):
        toks = line.split()
        ev = {'ev': 'send', 'line': line, 't': self.now()}
        if cls is None:
            cls = self.classify(toks)
        ev['cls'] = cls
        if cls in ('go_lim', 'go_inf'):
            lim, inf = parse_go(toks[1:])
            ev['lim'] = lim
        if cls == 'position':
            start, fenchars, moves, wf = position_fields(toks)
            ev.update(start=start, fenchars=fenchars, moves=moves, wellformed=wf)
        if extra:
            ev.update(extra)
        self.log(ev)
        try:
            self.p.stdin.write((line + '\n').encode())
            self.p.stdin.flush()
        except (BrokenPipeError, OSError):
            pass
        return ev

    def send_many(self, lines):
        """several lines in a single write (no gap between them)"""
        data = b''
        for line in lines:
            toks = line.split()
            cls = self.classify(toks)
            ev = {'ev': 'send', 'line': line, 't': self.now(), 'cls': cls}
            if cls in ('go_lim', 'go_inf'):
                ev['lim'] = parse_go(toks[1:])[0]
            if cls == 'position':
                start, fenchars, moves, wf = position_fields(toks)
                ev.update(start=start, fenchars=fenchars, moves=moves, wellformed=wf)
            self.log(ev)
            data += (line + '\n').encode()
        try:
            self.p.stdin.write(data)
            self.p.stdin.flush()
        except (BrokenPipeError, OSError):
            pass

    @staticmethod
    def classify(toks):
        if not toks:
            return 'junk'
        c = toks[0]
        if c == 'go':
            lim, inf = parse_go(toks[1:])
            return 'go_inf' if inf else 'go_lim'
        if c == 'stop' and len(toks) >= 1:
            return 'stop'
        if c == 'isready':
            return 'isready'
        if c == 'ucinewgame':
            return 'newgame'
        if c == 'position':
            return 'position'
        if c == 'quit':
            return 'quit'
        if c in ('uci', 'setoption'):
            return 'other'
        return 'junk'

    def close_stdin(self):
        self.log({'ev': 'close', 't': self.now()})
        try:
            self.p.stdin.close()
        except OSError:
            pass

    def wait_exit(self, timeout_ms):
        end = time.monotonic() + timeout_ms / 1000.0
        while time.monotonic() < end:
            self._pump(0.01)
            rc = self.p.poll()
            if rc is not None:
                self._pump(0.01)
                self.exited = True
                self.log({'ev': 'exit', 'code': rc if rc >= 0 else 256 + rc, 't': self.now()})
                return rc
        self.log({'ev': 'deadline', 'what': 'exit', 't': self.now()})
        return None

    def kill(self):
        if self.p.poll() is None:
            self.p.kill()
            try:
                self.p.wait(timeout=5)
            except subprocess.TimeoutExpired:
                pass
        for f in (self.p.stdin, self.p.stdout, self.p.stderr):
            try:
                f.close()
            except OSError:
                pass

    def sorted_events(self):
        return self.events


def write_batch(path, sessions, ztable=None):
    """sessions: list of event lists -> one ndjson batch for UciTrace.tla"""
    maxgo = 1
    maxcmds = 1
    for evs in sessions:
        maxgo = max(maxgo, sum(1 for e in evs if e.get('ev') == 'send' and e.get('cls', '').startswith('go')))
        maxcmds = max(maxcmds, sum(1 for e in evs if e.get('ev') == 'send'))
    with open(path, 'w') as f:
        f.write(json.dumps(ztable or {'ev': 'ztable', 'w': []}, separators=(',', ':')) + '\n')
        f.write(json.dumps({'ev': 'meta', 'maxgo': maxgo + 1, 'maxcmds': maxcmds + 1}) + '\n')
        for i, evs in enumerate(sessions):
            f.write(json.dumps({'ev': 'session', 'n': i + 1}) + '\n')
            for e in evs:
                f.write(json.dumps(e, separators=(',', ':')) + '\n')
