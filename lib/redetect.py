#!/usr/bin/env python3
"""redetect.py <seed-id>:<check,check> ... : re-runs checks against already imported seeded changes and updates meta.json"""
import json, os, sys
sys.path.insert(0, os.path.dirname(os.path.abspath(__file__)))
import seedtest
ROOT = os.path.dirname(os.path.dirname(os.path.abspath(__file__)))
for spec in sys.argv[1:]:
    sid, checks = spec.split(':')
    checks = checks.split(',')
    d = os.path.join(ROOT, 'seeded', sid)
    mp = os.path.join(d, 'meta.json')
    meta = json.load(open(mp)) if os.path.exists(mp) else {'id': sid}
    print('=== %s detect %s' % (sid, checks), flush=True)
    det = seedtest.detect(os.path.join(d, 'patch.diff'), checks)
    if det is None:
        continue
    meta.setdefault('history', []).append({'detected_by': meta.get('detected_by'), 'note': 'earlier run, before the checks were strengthened'})
    db = dict(meta.get('detected_by') or {})
    for k, r in det.items():
        db[k] = (r['rc'] == 1)
    meta['detected_by'] = db
    meta.setdefault('detail', {}) if isinstance(meta.get('detail'), dict) else None
    if isinstance(meta.get('detail'), dict):
        meta['detail'].update(det)
    else:
        meta['detail'] = det
    json.dump(meta, open(mp, 'w'), indent=1)
    print('=== %s summary %s' % (sid, db), flush=True)
