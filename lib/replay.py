"""./check <ID> --replay <path>: show a recorded violation again.

A replay file is the JSON written by Verdict.report(): the signature of the violation, how it was
found and, where a trace was involved, the path of the recorded trace cut at the rejected event.
Replaying (1) re-validates the recorded trace with the same TLA+ trace specification, which
reproduces the rejection deterministically, and (2) where the generator command was recorded,
regenerates the trace from the CURRENT working tree of /repo and validates that, which tells
whether the violation is still present. Exit 1 if it reproduces on the current tree (or, when
regeneration is not possible, in the recorded trace), 0 if not, 2 on tool errors."""
import json
import os

from vlib import *


def validate(prop, mode, trace):
    if prop in ('C01', 'C02', 'C03', 'C04', 'C05', 'C07', 'C17'):
        r = validate_trace(trace, mode or prop)
    elif prop in ('C08', 'C09', 'C10', 'C14', 'C15'):
        import uci_checks
        r = uci_checks.validate_uci(trace, mode or prop)
    elif prop in ('C12', 'C13', 'C16'):
        import search_checks
        r = search_checks.validate_search(trace, mode or prop, big=True)
    else:
        raise ToolError('no trace replay for %s' % prop)
    return r


def run(prop, path):
    rep = json.load(open(path))
    print('replay of %s: %s' % (prop, json.dumps(rep.get('signature'))[:800]))
    if rep.get('how'):
        print('found by: %s' % rep['how'])
    still = None
    trace = rep.get('trace')
    mode = (rep.get('signature') or {}).get('mode')
    if mode == 'C10' and (rep.get('signature') or {}).get('kind') == 'forced-schedule-rejected':
        mode = 'C10F'
    if trace and os.path.exists(trace):
        r = validate(prop, mode, trace)
        if r['status'] == 'error':
            log(r.get('detail', '')[-2000:])
            return 2
        print('recorded trace %s: %s %s' % (trace, r['status'], {k: r[k] for k in ('line', 'ev', 'fails') if k in r}))
        still = r['status'] == 'reject'
    gen = rep.get('generator')
    if gen and prop in ('C01', 'C02', 'C03', 'C04', 'C05', 'C07', 'C17'):
        build_harness()
        d = fresh_dir('replay-%d' % os.getpid())
        args = list(gen)
        if '--outdir' in args:
            args[args.index('--outdir') + 1] = d
        p = run_harness(args)
        info = json.loads(p.stdout.strip().split('\n')[-1])
        want = rep.get('batch')
        files = [f for f in info['files'] if not want or os.path.basename(f) == want]
        res = validate_many(files, prop)
        bad = [r for r in res if r['status'] == 'reject']
        print('regenerated from the current tree: %d batch(es), %d rejected' % (len(files), len(bad)))
        still = bool(bad)
        import shutil
        shutil.rmtree(d, ignore_errors=True)
    sig = rep.get('signature') or {}
    kind = sig.get('kind')
    if kind in ('value-mismatch', 'node-contract') and prop == 'C11':
        # the single case again: dump its tree from the current tree of /repo and let TLC judge it
        import search_checks
        build_harness()
        d = fresh_dir('replay-%d' % os.getpid())
        search_checks.write_cases(os.path.join(d, 'c.ndjson'), [{'id': 0, 'fen': sig['fen'], 'hist': sig.get('hist', []), 'depth': sig['depth']}])
        if kind == 'value-mismatch':
            run_harness(['tree-dump', '--cases', os.path.join(d, 'c.ndjson'), '--outdir', os.path.join(d, 't'), '--cap', 400000], timeout=3000)
            f = os.path.join(d, 't', 'tree-0.ndjson')
            r = search_checks.validate_search(f, 'C11', big=True) if os.path.exists(f) else {'status': 'error', 'detail': 'tree too large'}
        else:
            f = os.path.join(d, 'steps.ndjson')
            run_harness(['search-steps', '--cases', os.path.join(d, 'c.ndjson'), '--out', f, '--cap', 400000], timeout=3000)
            r = search_checks.validate_search(f, 'STEP', big=True)
        print('the case on the current tree: %s %s' % (r['status'], {k: r[k] for k in ('fails', 'got', 'want') if k in r}))
        if r['status'] == 'error':
            return 2
        still = r['status'] == 'reject'
    elif kind == 'mate-level' and prop == 'C12':
        import search_checks
        build_harness()
        d = fresh_dir('replay-%d' % os.getpid())
        case = {'id': 0, 'fen': sig['fen'], 'pre': sig.get('pre', []), 'depth': sig['depth']}
        if sig.get('cut') is not None:
            case['cut'] = sig['cut']
        search_checks.write_cases(os.path.join(d, 'c.ndjson'), [case])
        f = os.path.join(d, 'm.ndjson')
        run_harness(['mate-facts', '--cases', os.path.join(d, 'c.ndjson'), '--out', f], timeout=3000)
        r = search_checks.validate_search(f, 'C12')
        print('the case on the current tree: %s %s' % (r['status'], r.get('fails')))
        if r['status'] == 'error':
            return 2
        still = r['status'] == 'reject'
    elif kind == 'store-rule' and prop == 'C12':
        import search_checks
        build_harness()
        d = fresh_dir('replay-%d' % os.getpid())
        search_checks.write_cases(os.path.join(d, 'c.ndjson'), [{'id': 0, 'fen': sig['fen'], 'hist': [], 'depth': sig['depth']}])
        f = os.path.join(d, 'steps.ndjson')
        run_harness(['search-steps', '--cases', os.path.join(d, 'c.ndjson'), '--out', f, '--cap', 400000], timeout=3000)
        r = search_checks.validate_search(f, 'STORE', big=True)
        print('the case on the current tree: %s %s' % (r['status'], r.get('fails')))
        if r['status'] == 'error':
            return 2
        still = r['status'] == 'reject'
    elif kind == 'probe-rule' and prop == 'C12':
        import search_checks
        build_harness()
        d = fresh_dir('replay-%d' % os.getpid())
        search_checks.write_cases(os.path.join(d, 'c.ndjson'), [{'id': 0, 'fen': sig['fen'], 'pre': sig.get('pre', []), 'depth': sig['depth']}])
        f = os.path.join(d, 'p.ndjson')
        run_harness(['probe-trace', '--cases', os.path.join(d, 'c.ndjson'), '--out', f, '--cap', 10000000], timeout=3000)
        r = search_checks.validate_search(f, 'PROBE', big=True)
        print('the case on the current tree: %s %s' % (r['status'], r.get('fails')))
        if r['status'] == 'error':
            return 2
        still = r['status'] == 'reject'
    elif prop == 'C06':
        import attack_checks
        rc = attack_checks.run('C06', 'quick', rep.get('seed', 1))
        return rc
    elif kind in ('session-rejected', 'e2e-rejected') and prop in ('C09', 'C10', 'C14', 'C15') and still is not False:
        # drive the recorded lines through the current engine again (same order, answers awaited where the GUI would)
        import uci_checks
        from engine import Engine, write_batch
        build_harness()
        sends = sig.get('sends', [])
        e = Engine()
        try:
            for i, line in enumerate(sends):
                toks = line.split()
                cls = 'go_maybe' if (prop == 'C15' and toks and toks[0] == 'go') else None
                e.send(line, cls=cls) if cls else e.send(line)
                nxt = sends[i + 1] if i + 1 < len(sends) else ''
                if toks and toks[0] == 'go' and not nxt.startswith('stop') and prop != 'C15':
                    if e.wait_for('bestmove', 20000) is None:
                        e.log({'ev': 'deadline', 'what': 'bestmove', 't': e.now()})
                        break
                elif toks and toks[0] == 'stop':
                    e.wait_for('bestmove', 2500)
                elif toks and toks[0] == 'isready':
                    if e.wait_for('readyok', 2500) is None:
                        e.log({'ev': 'deadline', 'what': 'readyok', 't': e.now()})
                        break
            e.send('quit')
            e.wait_exit(2500)
        finally:
            e.kill()
        d = fresh_dir('replay-%d' % os.getpid())
        f = os.path.join(d, 'again.ndjson')
        write_batch(f, [e.events])
        r = uci_checks.validate_uci(f, mode or prop)
        print('the same lines on the current tree: %s' % r['status'])
        for x in uci_checks.describe(e.events)[-12:]:
            print('   ' + x[:160])
        if r['status'] == 'error':
            return 2
        still = r['status'] == 'reject'
    if still is None:
        print('nothing to re-run for this replay file; see its contents')
        return 0
    if still:
        print('VIOLATION property=%s replay=%s' % (prop, path))
        return 1
    print('not reproduced')
    return 0
