"""./check <ID> --replay <path>: show a recorded violation again.

A replay file is the JSON written by Verdict.report(): the signature of the violation, how it was
found and, where a trace was involved, the path of the recorded trace cut at the rejected event.
Replaying (1) re-validates the recorded trace with the same TLA+ trace specification, which
reproduces the rejection deterministically, and (2) where the generator command was recorded,
regenerates the trace from the CURRENT working tree of /repo and validates that, which tells
whether the violation is still present. Exit 1 if it reproduces on the current tree (or, when
regeneration is not possible, in the recorded trace), 0 if not, 2 on tool errors."""
import json
import os

from vlib import *


def validate(prop, mode, trace):
    if prop in ('C01', 'C02', 'C03', 'C04', 'C05', 'C07', 'C17'):
        r = validate_trace(trace, mode or prop)
    elif prop in ('C08', 'C09', 'C10', 'C14', 'C15'):
        import uci_checks
        r = uci_checks.validate_uci(trace, mode or prop)
    elif prop in ('C12', 'C13', 'C16'):
        import search_checks
        r = search_checks.validate_search(trace, mode or prop, big=True)
    else:
        raise ToolError('no trace replay for %s' % prop)
    return r


def run(prop, path):
    rep = json.load(open(path))
    print('replay of %s: %s' % (prop, json.dumps(rep.get('signature'))[:800]))
    if rep.get('how'):
        print('found by: %s' % rep['how'])
    still = None
    trace = rep.get('trace')
    mode = (rep.get('signature') or {}).get('mode')
    if mode == 'C10' and (rep.get('signature') or {}).get('kind') == 'forced-schedule-rejected':
        mode = 'C10F'
    if trace and os.path.exists(trace):
        r = validate(prop, mode, trace)
        if r['status'] == 'error':
            log(r.get('detail', '')[-2000:])
            return 2
        print('recorded trace %s: %s %s' % (trace, r['status'], {k: r[k] for k in ('line', 'ev', 'fails') if k in r}))
        still = r['status'] == 'reject'
    gen = rep.get('generator')
    if gen and prop in ('C01', 'C02', 'C03', 'C04', 'C05', 'C07', 'C17'):
        build_harness()
        d = fresh_dir('replay-%d' % os.getpid())
        args = list(gen)
        if '--outdir' in args:
            args[args.index('--outdir') + 1] = d
        p = run_harness(args)
        info = json.loads(p.stdout.strip().split('\n')[-1])
        want = rep.get('batch')
        files = [f for f in info['files'] if not want or os.path.basename(f) == want]
        res = validate_many(files, prop)
        bad = [r for r in res if r['status'] == 'reject']
        print('regenerated from the current tree: %d batch(es), %d rejected' % (len(files), len(bad)))
        still = bool(bad)
        import shutil
        shutil.rmtree(d, ignore_errors=True)
    if still is None:
        print('nothing to re-run for this replay file; see its contents')
        return 0
    if still:
        print('VIOLATION property=%s replay=%s' % (prop, path))
        return 1
    print('not reproduced')
    return 0
