#!/usr/bin/env python3
"""Runs the checks against the reverse patch of each repaired defect (seeded/D*-revert) and writes meta.json."""
import json, os, sys
sys.path.insert(0, os.path.dirname(os.path.abspath(__file__)))
import seedtest
ROOT = os.path.dirname(os.path.dirname(os.path.abspath(__file__)))
PLAN = {
 'D1': ('C02', ['C02', 'C03'], 'a position that already occurred on the line is left by a move that is then taken back (any legality probe from a repeated position)'),
 'D2': ('C14', ['C14', 'C09'], 'any go with a depth limit (the depth limit is compared with the ply counter)'),
 'D3': ('C09', ['C09', 'C10'], 'the first iteration is cut short: tiny node / time limits, or stop right after go'),
 'D4': ('C10', ['C10'], 'stop arrives before the search thread stores true into the running flag at its entry'),
 'D5': ('C10', ['C10'], 'go arrives between the bestmove line and the exit of the search thread'),
 'D6': ('C13', ['C13'], 'any interruption below the root while an ancestor still has moves to search or a result to store'),
 'D7a': ('C15', ['C15'], 'go with a keyword as last token; setoption with value before name or an empty name'),
 'D7b': ('C15', ['C15'], 'standard input closed'),
 'D8': ('C15', ['C15', 'C08'], 'position fen <valid 4- or 5-field FEN> moves ...'),
}
only = sys.argv[1:]
for k, (prop, checks, needs) in PLAN.items():
    if only and k not in only:
        continue
    d = os.path.join(ROOT, 'seeded', k + '-revert')
    print('=== %s-revert detect %s' % (k, checks), flush=True)
    det = seedtest.detect(os.path.join(d, 'patch.diff'), checks)
    meta = {'id': k + '-revert', 'breaks': prop, 'source': 'reverse patch of the fix: commit for defect %s (the pinned tree\'s own behaviour)' % k,
            'needs': needs, 'confirmed': 'the repository test suite passed on the pinned tree, which contained this behaviour; failing inputs are listed in DESIGN.md 14.3',
            'ran': {'detect': 'lib/seedtest.py detect seeded/%s-revert/patch.diff %s' % (k, ' '.join(checks))},
            'detected_by': {c: (r['rc'] == 1) for c, r in (det or {}).items()}, 'detail': det}
    json.dump(meta, open(os.path.join(d, 'meta.json'), 'w'), indent=1)
    print('=== %s-revert summary %s' % (k, meta['detected_by']), flush=True)
