"""C10 forced schedules (spec -> impl): TLC enumerates every behaviour of Uci.tla for a few GUI
scripts (UciGen.tla); each behaviour is forced on the real instrumented binary by holding the
search thread at the labelled cfg(rce_verif) schedule points and sending each line exactly when
the behaviour says the input thread reads it.  What the GUI can observe of each forced run is
then validated by UciTrace.tla like any other session (without the timing clauses, since the
controller itself holds the threads)."""
import concurrent.futures as cf
import json
import os
import random
import re
import shutil
import tempfile
import time

from engine import Engine, write_batch
from vlib import *
import uci_checks

GEN_CFG = '''SPECIFICATION GSpec
CONSTANTS
  MaxCmds = %d
  MaxSearch = %d
  MaxIter = 1
  Vocabulary = {"go_inf", "go_lim", "stop", "position_ok", "position_bad", "isready", "junk", "quit"}
  StartStoresTrue = FALSE
  GoRejectsUnfinished = FALSE
  NoFallbackMove = FALSE
  BestBeforeClear = FALSE
  EofLoops = FALSE
  ParserPanics = FALSE
  Disciplined = TRUE
  Script <- %s
INVARIANT Emit
CHECK_DEADLOCK FALSE
'''
SCRIPTS = {
    'Script1': ['go_inf', 'stop', 'position_ok', 'isready', 'go_lim'],
    'Script2': ['go_lim', 'go_inf', 'stop', 'go_lim'],
    'Script3': ['go_inf', 'isready', 'stop', 'go_inf', 'stop'],
    'Script4': ['go_lim', 'stop', 'go_lim', 'isready'],
}
LINES = {'go_inf': 'go infinite', 'go_lim': 'go depth 1', 'stop': 'stop', 'position_ok': 'position startpos moves e2e4 e7e5',
         'isready': 'isready'}
HOLDS = ['S.entry', 'S.started', 'S.iter1', 'S.pre_best', 'S.cleared', 'S.post_best', 'S.exit']


def generate(script):
    cmds = SCRIPTS[script]
    ngo = sum(1 for c in cmds if c.startswith('go'))
    rc, out = run_tlc('MCUciGen.tla', GEN_CFG % (len(cmds), ngo, script), 'ucigen-%s-%d' % (script, os.getpid()),
                      workers=4, timeout=1200)
    if 'Model checking completed. No error has been found.' not in out:
        log(out[-2000:])
        raise ToolError('UciGen failed for %s' % script)
    trails = []
    for js in re.findall(r'<<\s*"SCHED",\s*"(.*?)"\s*>>', out, re.S):
        trails.append(json.loads(js.replace('\\"', '"')))
    gen, dist = mc_stats(out)
    return trails, dist, gen


class Forcer:
    def __init__(self, trail):
        self.trail = trail
        self.dir = tempfile.mkdtemp(prefix='sched-', dir=WORK)
        for h in HOLDS:
            open(os.path.join(self.dir, 'hold.' + h), 'w').close()
        open(os.path.join(self.dir, 'events'), 'w').close()
        self.e = Engine(env={'RCE_VERIF_SCHED': self.dir})
        self.seen = 0
        self.counts = {}
        self.forced = True
        self.why = ''

    def poll(self):
        try:
            lines = open(os.path.join(self.dir, 'events')).read().split('\n')
        except OSError:
            return
        for l in lines[self.seen:]:
            p = l.split()
            if len(p) == 3:
                self.counts[p[2]] = self.counts.get(p[2], 0) + 1
        self.seen = max(0, len(lines) - 1)

    def wait(self, label, n, timeout=2.5):
        end = time.monotonic() + timeout
        while time.monotonic() < end:
            self.poll()
            if self.counts.get(label, 0) >= n:
                return True
            self.e._pump(0.001)
        self.forced = False
        self.why = 'timeout waiting for %s #%d' % (label, n)
        return False

    def release(self, label):
        """let the thread held at `label` go on, and arm the hold again for the next search"""
        n = self.counts.get('released.' + label, 0)
        try:
            os.remove(os.path.join(self.dir, 'hold.' + label))
        except OSError:
            pass
        ok = self.wait('released.' + label, n + 1)
        open(os.path.join(self.dir, 'hold.' + label), 'w').close()
        return ok

    def reach(self, label):
        return self.wait(label, self.counts.get(label, 0) + 1) if False else None

    def run(self):
        e = self.e
        tr = self.trail
        reached = {h: 0 for h in HOLDS}        # how many times we have already accounted for a thread arriving at h
        mdone = [0]                            # M.done events expected so far

        def main_done(timeout=2.5):
            mdone[0] += 1
            return self.wait('M.done', mdone[0], timeout)

        def arrive(label):
            reached[label] += 1
            return self.wait(label, reached[label])
        try:
            i = 0
            while i < len(tr) and self.forced:
                who, what = tr[i]
                nxt = tr[i + 1] if i + 1 < len(tr) else None
                if who == 'M' and what != 'join':
                    e.send(LINES[what])
                    if what.startswith('go'):
                        # does the input thread start the search at once or wait for the previous one?
                        joins = any(t == ['M', 'join'] for t in tr[i + 1:]) and \
                            [t for t in tr[i + 1:] if t[0] == 'M'][0] == ['M', 'join']
                        if not joins:
                            main_done() and arrive('S.entry')
                    elif what == 'isready':
                        if e.wait_for('readyok', 2500) is None:
                            e.log({'ev': 'deadline', 'what': 'readyok', 't': e.now()})
                            self.forced = False
                            self.why = 'no readyok'
                        main_done()
                    else:
                        main_done()
                elif who == 'M':
                    # the input thread was blocked in join; the previous search has exited by now
                    main_done(4) and arrive('S.entry')
                elif what == 'entry':
                    self.release('S.entry') and arrive('S.started')
                elif what == 'work':
                    self.release('S.started') and arrive('S.iter1')
                elif what == 'check-break':
                    self.release('S.iter1') and arrive('S.pre_best')
                elif what == 'check-go':
                    self.release('S.iter1')
                elif what == 'spin':
                    arrive('S.pre_best')
                elif what == 'clear':
                    self.release('S.pre_best') and arrive('S.cleared')
                elif what == 'best':
                    nb = sum(1 for x in e.events if x.get('ev') == 'recv' and x.get('kind') == 'bestmove')
                    if self.release('S.cleared') and arrive('S.post_best'):
                        # the line was printed before the hook: make sure the GUI has read it before it goes on
                        end = time.monotonic() + 1.5
                        while time.monotonic() < end and sum(1 for x in e.events if x.get('ev') == 'recv' and x.get('kind') == 'bestmove') <= nb:
                            e._pump(0.002)
                elif what == 'exit':
                    if self.release('S.post_best') and arrive('S.exit'):
                        self.release('S.exit')
                        time.sleep(0.003)
                i += 1
        finally:
            # free run from here on
            for h in HOLDS:
                try:
                    os.remove(os.path.join(self.dir, 'hold.' + h))
                except OSError:
                    pass
        # wind down with the GUI discipline kept: stop anything still searching, wait for answers
        if not self.forced:
            e.send('stop')
        ngo = sum(1 for x in e.events if x.get('ev') == 'send' and x.get('cls', '').startswith('go'))
        deadline = time.monotonic() + 4
        while time.monotonic() < deadline:
            nb = sum(1 for x in e.events if x.get('ev') == 'recv' and x.get('kind') == 'bestmove')
            if nb >= ngo:
                break
            e._pump(0.02)
        else:
            e.log({'ev': 'deadline', 'what': 'bestmove', 't': e.now()})
        e.send('isready')
        if e.wait_for('readyok', 2500) is None:
            e.log({'ev': 'deadline', 'what': 'readyok', 't': e.now()})
        e.send('quit')
        e.wait_exit(2500)
        e.kill()
        shutil.rmtree(self.dir, ignore_errors=True)
        return e.events, self.forced, self.why


def run(tier, seed, verdict, cov):
    rng = random.Random(seed)
    all_trails = []
    states = trans = 0
    for s in SCRIPTS:
        trails, dist, gen = generate(s)
        states += dist
        trans += gen
        all_trails += [(s, t) for t in trails]
    total = len(all_trails)
    if tier == 'quick':
        # the shortest-prefix-distinct schedules first: sample uniformly, deterministic in the seed
        rng.shuffle(all_trails)
        chosen = all_trails[:72]
    else:
        chosen = all_trails

    def one(st):
        s, t = st
        return Forcer(t).run()
    t0 = time.time()
    with cf.ThreadPoolExecutor(max_workers=4) as ex:
        results = list(ex.map(one, chosen))
    log('[C10] %d forced schedules executed in %.1fs' % (len(chosen), time.time() - t0))
    sessions = [r[0] for r in results]
    forced = sum(1 for r in results if r[1])
    d = fresh_dir('sched-%d' % os.getpid())
    files = []
    per = 12
    for i in range(0, len(sessions), per):
        p = os.path.join(d, 'forced-%04d.ndjson' % (i // per))
        write_batch(p, sessions[i:i + per])
        files.append((p, i))
    with cf.ThreadPoolExecutor(max_workers=max(1, NCPU - 2)) as ex:
        vals = list(ex.map(lambda f: uci_checks.validate_uci(f[0], 'C10F'), files))
    for (p, base), r in zip(files, vals):
        if r['status'] == 'error':
            log(r.get('detail', '')[-3000:])
            raise ToolError('UciTrace failed on forced-schedule batch')
        cov['states'] = cov.get('states', 0) + r['states']
        cov['transitions'] = cov.get('transitions', 0) + r['generated']
        if r['status'] == 'accept':
            cov['traces_validated_against_impl'] = cov.get('traces_validated_against_impl', 0) + 1
        else:
            evs = uci_checks.session_of(p, r['line'])
            n = next((e['n'] for e in evs if e.get('ev') == 'session'), 1)
            script, trail = chosen[base + n - 1]
            desc = uci_checks.describe(evs)
            sig = {'kind': 'forced-schedule-rejected', 'script': SCRIPTS[script], 'schedule': [' '.join(x) for x in trail],
                   'unmatched': desc[-1] if desc else ''}
            verdict.report(sig, {'how': 'behaviour of Uci.tla forced on the real binary; the observed session is not a behaviour of the model',
                                 'session': desc, 'forcing': results[base + n - 1][2] or 'held as scheduled'},
                           trace_src=p, cut_line=r['line'])
    cov['states'] = cov.get('states', 0) + states
    cov['transitions'] = cov.get('transitions', 0) + trans
    cov['forced_schedules'] = {'behaviours_generated_by_tlc': total, 'executed': len(chosen), 'held_exactly_as_scheduled': forced,
                               'scripts': SCRIPTS}
    if forced < len(chosen) * 0.8 and not verdict.violations:
        raise ToolError('only %d of %d schedules could be forced as generated (hook mapping out of date?): %s'
                        % (forced, len(chosen), [r[2] for r in results if not r[1]][:3]))
    shutil.rmtree(d, ignore_errors=True)
