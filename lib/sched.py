"""C10 forced schedules (spec -> impl). Placeholder until the UciGen machinery is in."""
def run(tier, seed, verdict, cov):
    cov['forced_schedules'] = 0
