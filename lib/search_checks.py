"""Checks C11, C12, C13, C16: the look-ahead game and the search algorithm (Search.tla, model
checked on all small trees) and recorded searches of the real engine judged by SearchTrace.tla."""
import concurrent.futures as cf
import json
import os
import random
import re
import shutil
import subprocess
import time

import gen_seeds
from vlib import *

ST_CFG = 'SPECIFICATION Spec\nCONSTANT Mode = "%s"\nCHECK_DEADLOCK FALSE\n'
ACC = re.compile(r'<<\s*"ACCEPT",\s*([\d,\s]+?)\s*>>', re.S)
REJ = re.compile(r'<<\s*"REJECT",\s*(\d+),\s*"([^"]*)",\s*\{(.*?)\}(?:,\s*(-?\d+),\s*(-?\d+))?', re.S)


def validate_search(path, mode, big=False):
    name = 'st-%s-%s-%d' % (mode, os.path.basename(path).replace('.ndjson', ''), os.getpid())
    jvm = '-XX:ParallelGCThreads=2 -Xms1g -Xmx%s -Xss1g -Dtlc2.tool.queue.IStateQueue=StateDeque' % ('12g' if big else '5g')
    try:
        rc, out = run_tlc('SearchTrace.tla', ST_CFG % mode, name, workers=1, timeout=3000,
                          env_extra={'TRACE': os.path.abspath(path)}, jvm=jvm)
    except ToolError as e:
        return {'file': path, 'status': 'error', 'detail': str(e)}
    gen, dist = mc_stats(out)
    m = REJ.search(out)
    if m:
        return {'file': path, 'status': 'reject', 'line': int(m.group(1)), 'ev': m.group(2), 'states': dist,
                'fails': sorted(x.strip().strip('"') for x in m.group(3).split(',') if x.strip()),
                'got': m.group(4), 'want': m.group(5)}
    m = ACC.search(out)
    if m and 'Model checking completed. No error has been found.' in out:
        return {'file': path, 'status': 'accept', 'nums': [int(x) for x in re.findall(r'\d+', m.group(1))], 'states': dist}
    return {'file': path, 'status': 'error', 'detail': out[-3000:]}


def six(f):
    return f if len(f.split()) == 6 else f + ' 0 1'


def positions():
    """seed suites, restricted to legal positions that have a move (has-moves: one king each, the side that
    has just moved not in check, at least one legal move)"""
    suites = []
    for name in ('sparse.fen', 'corner.fen', 'perft.fen', 'bench.fen', 'mates.fen'):
        fens = [six(f) for f in gen_seeds.read(name)]
        tmp = os.path.join(WORK, 'fens-%s-%d.txt' % (name, os.getpid()))
        os.makedirs(WORK, exist_ok=True)
        with open(tmp, 'w') as fo:
            fo.write('\n'.join(fens) + '\n')
        p = run_harness(['has-moves', '--in', tmp])
        os.remove(tmp)
        suites.append([l for l in p.stdout.split('\n') if l.strip()])
    return tuple(suites)


def games(seed, n, plies=30):
    p = run_harness(['games', '--seed', seed, '--n', n, '--plies', plies, '--seeds', os.path.join(ROOT, 'seeds')])
    out = []
    for l in p.stdout.split('\n'):
        if '|' in l:
            parts = l.split('|')
            out.append((parts[0], parts[1].split()))
    return out


def write_cases(path, cases):
    with open(path, 'w') as f:
        for c in cases:
            f.write(json.dumps(c) + '\n')


# ---------------------------------------------------------------------------------------------
# C11

SHUFFLES = [['g1f3', 'g8f6', 'f3g1'], ['b1c3', 'b8c6', 'c3b1'], ['g1f3', 'g8f6', 'f3g1', 'f6g8', 'g1f3'],
            ['e2e4', 'e7e5', 'g1f3', 'b8c6', 'f3g1', 'c6b8', 'g1f3']]


def promo_capture_positions(rng, n):
    """sparse random positions with a pawn one step from promotion and an enemy piece it can capture on the last
    rank (captures, recaptures and promotions meet in the quiescence search); legality is checked by the caller"""
    out = []
    for _ in range(n * 3):
        b = {}
        white = rng.random() < 0.5                   # the side that owns the advanced pawn
        f = rng.randrange(8)
        pr, lr = (6, 7) if white else (1, 0)         # pawn rank, last rank (0-based)
        b[(f, pr)] = 'P' if white else 'p'
        cf = f + rng.choice([-1, 1])
        if not 0 <= cf < 8:
            cf = f + 1 if f == 0 else f - 1
        b[(cf, lr)] = rng.choice('nbrq') if white else rng.choice('NBRQ')
        if rng.random() < 0.5:
            b[(f, lr)] = rng.choice('nbr') if white else rng.choice('NBR')      # the push is blocked
        for k in 'Kk':
            for _try in range(50):
                sq = (rng.randrange(8), rng.randrange(8))
                if sq not in b and all(max(abs(sq[0] - q[0]), abs(sq[1] - q[1])) > 1 for q, v in b.items() if v in 'Kk'):
                    b[sq] = k
                    break
        for _x in range(rng.randint(1, 5)):
            sq = (rng.randrange(8), rng.randrange(1, 7))
            if sq not in b:
                b[sq] = rng.choice('PpNnBbRrQqPp')
        if sum(1 for v in b.values() if v == 'K') != 1 or sum(1 for v in b.values() if v == 'k') != 1:
            continue
        rows = []
        for r in range(7, -1, -1):
            row, e = '', 0
            for c in range(8):
                if (c, r) in b:
                    row += (str(e) if e else '') + b[(c, r)]
                    e = 0
                else:
                    e += 1
            rows.append(row + (str(e) if e else ''))
        out.append('%s %s - - 0 1' % ('/'.join(rows), rng.choice('wb')))
    return out


def legal_only(fens):
    tmp = os.path.join(WORK, 'fens-legal-%d.txt' % os.getpid())
    with open(tmp, 'w') as fo:
        fo.write('\n'.join(fens) + '\n')
    p = run_harness(['has-moves', '--in', tmp])
    os.remove(tmp)
    return [l.strip() for l in p.stdout.split('\n') if l.strip()]


def c11_cases(tier, seed):
    rng = random.Random(seed)
    sparse, corner, perft, bench, mates = positions()
    gs = games(seed, 60 if tier == 'quick' else 1500, 24)
    pc = run_harness(['checky', '--seed', seed, '--n', 80 if tier == 'quick' else 2500])
    checky = [l.strip() for l in pc.stdout.split('\n') if l.strip()]
    ps = run_harness(['shuffles', '--seed', seed, '--n', 40 if tier == 'quick' else 800, '--seeds', os.path.join(ROOT, 'seeds')])
    shuf = [(l.split('|')[0], l.split('|')[1].split()) for l in ps.stdout.split('\n') if '|' in l]
    pe = run_harness(['epq', '--seed', seed, '--n', 40 if tier == 'quick' else 600])
    epq = [l.strip() for l in pe.stdout.split('\n') if l.strip()]
    pm = run_harness(['mate-cands', '--seed', seed, '--n', 60 if tier == 'quick' else 1200, '--seeds', os.path.join(ROOT, 'seeds')], timeout=3000)
    mcands = [l.strip() for l in pm.stdout.split('\n') if l.strip()]
    cases = []
    n = 145 if tier == 'quick' else 1500
    tiny = [f for f in sparse if sum(1 for ch in f.split()[0] if ch.isalpha()) <= 4]
    while len(cases) < n:
        r = rng.random()
        if r < 0.05 and tiny:
            # the smallest endgames, searched deeper than anything else here (pruning that sets in only at depth 5+)
            fen = rng.choice(tiny)
            hist = []
            depth = rng.choice([5, 5, 6])
        elif r < 0.10 and epq:
            # a double pawn push next to an enemy pawn: the en-passant capture arises at the horizon (quiescence)
            fen = rng.choice(epq)
            hist = []
            depth = rng.choice([1, 1, 2])
        elif r < 0.17 and mcands:
            # overwhelming material: several forced mates of different lengths below one node (mate scores meet
            # null windows and re-searches)
            fen = rng.choice(mcands)
            hist = []
            depth = 3
        elif r < 0.24 and shuf:
            # a shuffle in a position with a material imbalance: the reply that repeats the position is a draw
            # for the side that is behind (clock small, so only the repetition rule can see it)
            fen, hist = rng.choice(shuf)
            hist = list(hist)
            depth = rng.choice([1, 2, 2, 3])
        elif r < 0.46 and checky:
            # sparse positions where checks occur inside a shallow tree (the check extension matters)
            fen = rng.choice(checky)
            hist = []
            depth = rng.choice([2, 2, 3, 3])
        elif r < 0.56:
            fen = rng.choice(sparse + mates)
            hist = []
            depth = rng.choice([1, 2, 3, 3, 4])
        elif r < 0.64:
            fen = rng.choice(corner)
            hist = []
            depth = rng.choice([1, 2, 2, 3])
        elif r < 0.75:
            # clocks near 100: the fifty-move rule cuts inside the tree (also where a mate would land on the hundredth half-move)
            f = rng.choice(sparse + corner + mates + mates).split()
            f[4] = str(rng.choice([95, 96, 97, 98, 99]))
            f[3] = '-'
            fen = ' '.join(f)
            hist = []
            depth = rng.choice([2, 3, 4])
        elif r < 0.84:
            fen = 'startpos'
            hist = list(rng.choice(SHUFFLES))
            depth = rng.choice([1, 2])
        elif r < 0.93:
            fen, moves = rng.choice(gs)
            hist = moves[:rng.randint(0, len(moves))]
            depth = rng.choice([1, 2, 2])
        else:
            fen = rng.choice(bench + perft)
            hist = []
            depth = rng.choice([1, 2])
        cases.append({'id': len(cases), 'fen': fen, 'hist': hist, 'depth': depth})
    # a pawn that can capture onto the last rank (promotion captures inside the quiescence search), depth 1 and 2
    pq = legal_only(promo_capture_positions(random.Random(seed + 5), 40 if tier == 'quick' else 600))
    for i, f in enumerate(pq[:60 if tier == 'quick' else 900]):
        cases.append({'id': len(cases), 'fen': f, 'hist': [], 'depth': 1 + i % 2, 'pq': True})
    # king hunts: two heavy pieces against a bare king, depth 4 - series of checks, each extended by a ply, reach far
    # below the nominal depth (large trees: a few of them, dumped with their own cap)
    lad = []
    lr = random.Random(seed + 9)
    for kf in range(1, 7):
        # rook ladder: the king on the fifth rank is driven to the edge by four checks (mate on the seventh half-move);
        # the white pieces huddle in a corner so that the un-pruned tree stays below the cap
        row5 = (str(kf) if kf else '') + 'k' + (str(7 - kf) if kf < 7 else '')
        if kf >= 3:
            lad.append('8/8/8/%s/R7/8/8/KR6 w - - 0 1' % row5)
        if kf <= 4:
            lad.append('8/8/8/%s/7R/8/8/6RK w - - 0 1' % row5)
    lr.shuffle(lad)
    for f in legal_only(lad)[:2 if tier == 'quick' else 24]:
        cases.append({'id': len(cases), 'fen': f, 'hist': [], 'depth': 4, 'lad': True})
    # forced mates in two from sparse random material, depth 3: a longer (checking) mate is often visible in the same
    # iteration, so mate scores meet null windows, re-searches and cut-offs (small trees: many of them are affordable)
    pm2 = run_harness(['mate-cands', '--seed', seed + 17, '--n', 110 if tier == 'quick' else 2500, '--only', 'm2',
                       '--seeds', os.path.join(ROOT, 'seeds')], timeout=6000)
    for l in pm2.stdout.split('\n'):
        if l.strip():
            cases.append({'id': len(cases), 'fen': l.strip(), 'hist': [], 'depth': 3, 'm2': True})
    return cases


def run_c11(tier, seed, verdict, cov):
    d = fresh_dir('c11-%d' % os.getpid())
    cases = c11_cases(tier, seed)
    cap = 60000 if tier == 'quick' else 120000
    parts = max(1, min(NCPU - 2, 12))
    regular = [c for c in cases if not c.get('lad')]
    chunks = [regular[i::parts] for i in range(parts)]
    ladders = [c for c in cases if c.get('lad')]
    chunks += [ladders[i::4] for i in range(4) if ladders[i::4]]          # the king hunts, with a cap of their own

    def dump(i):
        cp = os.path.join(d, 'cases-%d.ndjson' % i)
        write_cases(cp, chunks[i])
        od = os.path.join(d, 'trees-%d' % i)
        p = run_harness(['tree-dump', '--cases', cp, '--outdir', od, '--cap', cap if i < parts else 450000], timeout=3000)
        return od
    with cf.ThreadPoolExecutor(max_workers=parts) as ex:
        dirs = list(ex.map(dump, range(len(chunks))))
    # batches of trees (ndjson, one tree per line), balanced by size
    trees = []
    for od in dirs:
        for f in sorted(os.listdir(od)):
            trees.append(os.path.join(od, f))
    trees.sort(key=lambda p: -os.path.getsize(p))
    total_bytes = sum(os.path.getsize(p) for p in trees)
    # at most ~100 MB of tree lines per TLC process (about a million nodes)
    nb = max(1, min(len(trees), max(parts * 2, total_bytes // 100_000_000 + 1)))
    batches = [[] for _ in range(nb)]
    sizes = [0] * nb
    for t in trees:
        i = sizes.index(min(sizes))
        batches[i].append(t)
        sizes[i] += os.path.getsize(t)
    files = []
    for i, b in enumerate(batches):
        if not b:
            continue
        p = os.path.join(d, 'trees-%03d.ndjson' % i)
        with open(p, 'w') as fo:
            for t in b:
                fo.write(open(t).read())
        files.append((p, b))
    with cf.ThreadPoolExecutor(max_workers=parts if tier == 'quick' else 6) as ex:
        results = list(ex.map(lambda fb: validate_search(fb[0], 'C11', big=True), files))

    def header(path):
        with open(path) as fh:
            return json.loads(fh.readline())
    total_nodes = 0
    judged = 0
    samples = []
    for (p, b), r in zip(files, results):
        if r['status'] == 'error':
            log(r.get('detail', '')[-3000:])
            raise ToolError('SearchTrace (C11) failed to run on %s' % p)
        cov['states'] = cov.get('states', 0) + max(1, r.get('states', 0))
        cov['transitions'] = cov.get('transitions', 0) + 1
        if r['status'] == 'accept':
            cov['traces_validated_against_impl'] = cov.get('traces_validated_against_impl', 0) + 1
            judged += r['nums'][1]
        else:
            with open(p) as fh:
                for ln, line in enumerate(fh, 1):
                    if ln == r['line']:
                        t = json.loads(line)
                        break
            if 'DUMP-INCOMPLETE' in r['fails']:
                raise ToolError('tree dump does not cover the look-ahead game of case %s (dumper/spec mismatch)' % t['id'])
            sig = {'kind': 'value-mismatch', 'fen': t['fen'], 'hist': t['hist'], 'depth': t['depth'], 'fails': r['fails']}
            verdict.report(sig, {'how': 'engine result (cache neutralised) vs RootVal of the look-ahead game evaluated by TLC on the dumped tree',
                                 'engine_best': t['best'], 'engine_score': t['score'], 'spec_root_value': r.get('want'), 'tree_nodes': t['n']})
    for p, b in files:
        for t in b:
            j = header(t)
            total_nodes += j['n']
            if len(samples) < 3:
                samples.append({k: j[k] for k in ('fen', 'hist', 'depth', 'best', 'score', 'n')})
    cov['evaluations'] = len(trees)
    cov['cases_generated'] = len(cases)
    cov['cases_skipped_tree_too_large'] = len(cases) - len(trees)
    cov['tree_nodes_evaluated'] = total_nodes
    cov['distinct_nontrivial'] = len({(json.dumps(c['fen']), tuple(c['hist']), c['depth']) for c in cases})
    cov['samples'] = samples
    # node-level contract: every child search of the real search returns a value that is sound for its window
    # (exact inside, a true bound outside) with respect to LookVal / Quiesce of that node
    step_cases = [c for c in cases if c['depth'] <= 3 and not c.get('m2') and not c.get('pq')][:90 if tier == 'quick' else 2500]
    step_cases += [c for c in cases if c.get('m2')][:30 if tier == 'quick' else 800]
    step_cases += [c for c in cases if c.get('pq')][:30 if tier == 'quick' else 600]
    nsch = parts if tier == 'quick' else 48            # thorough: many small files, few TLC processes at a time (memory)
    schunks = [c for c in (step_cases[i::nsch] for i in range(nsch)) if c]

    def steps(i):
        cp = os.path.join(d, 'step-cases-%d.ndjson' % i)
        write_cases(cp, schunks[i])
        out = os.path.join(d, 'steps-%02d.ndjson' % i)
        run_harness(['search-steps', '--cases', cp, '--out', out, '--cap', 8000 if tier == 'quick' else 40000], timeout=6000)
        return out
    with cf.ThreadPoolExecutor(max_workers=parts) as ex:
        sfiles = [f for f in ex.map(steps, range(len(schunks))) if os.path.getsize(f) > 0]
    with cf.ThreadPoolExecutor(max_workers=parts if tier == 'quick' else 5) as ex:
        sres = list(ex.map(lambda f: validate_search(f, 'STEP', big=True), sfiles))
    child_searches = 0
    for f, r in zip(sfiles, sres):
        if r['status'] == 'error':
            log(r.get('detail', '')[-3000:])
            raise ToolError('SearchTrace (STEP) failed to run on %s' % f)
        cov['states'] = cov.get('states', 0) + r.get('states', 0)
        cov['transitions'] = cov.get('transitions', 0) + max(0, r.get('states', 0) - 1)
        if r['status'] == 'accept':
            cov['traces_validated_against_impl'] = cov.get('traces_validated_against_impl', 0) + 1
            child_searches += r['nums'][1]
        else:
            hdr = None
            ev = None
            path = {}
            with open(f) as fh:
                for ln, line in enumerate(fh, 1):
                    if '"ev":"tree"' in line[:20]:
                        hdr = json.loads(line)
                        path = {}
                    elif '"ev":"down"' in line[:20]:
                        e = json.loads(line)
                        path = {k: v for k, v in path.items() if k < e['ply']}
                        path[e['ply']] = e['mv']
                    if ln == r['line']:
                        ev = json.loads(line)
                        break
            line_moves = [path[k] for k in sorted(path) if k <= ev.get('ply', 0)]
            sig = {'kind': 'node-contract', 'fen': hdr['fen'], 'hist': hdr['hist'], 'depth': hdr['depth'], 'line': line_moves, 'fails': r['fails']}
            verdict.report(sig, {'how': 'a child search of the real search returned a value that is unsound for its window (SearchTrace.tla STEP)',
                                 'event': ev}, trace_src=None)
    cov['child_searches_judged'] = child_searches
    if child_searches == 0 and not verdict.violations:
        raise ToolError('vacuity: no child search was judged in STEP mode')
    # the assumption behind "any move order" in Search.tla: the ordering iterator yields every move exactly once
    op = os.path.join(d, 'order.ndjson')
    run_harness(['order-trace', '--seed', seed, '--n', 600 if tier == 'quick' else 20000, '--out', op, '--seeds', os.path.join(ROOT, 'seeds')], timeout=3000)
    r = validate_search(op, 'ORD', big=True)
    if r['status'] == 'error':
        log(r.get('detail', '')[-3000:])
        raise ToolError('SearchTrace (ORD) failed to run')
    if r['status'] == 'accept':
        cov['traces_validated_against_impl'] = cov.get('traces_validated_against_impl', 0) + 1
        cov['move_ordering'] = {'lists_checked': r['nums'][0], 'cached_move_first (informational)': r['nums'][1],
                                'captures_before_quiet (informational)': r['nums'][2]}
    else:
        e = read_events(op, r['line'])[-1]
        verdict.report({'kind': 'ordering-not-a-permutation', 'moves': e['moves'], 'out': e['out'], 'fails': r['fails']},
                       {'how': 'the move-ordering iterator dropped or repeated a move (the search would skip or double-count it)', 'event': e})
    # self-test: a wrong score must be rejected
    if not verdict.violations and files:
        p, b = files[-1]
        lines = open(b[-1]).read().strip().split('\n')
        t = json.loads(lines[0])
        t['score'] = t['score'] + 1
        lines[0] = json.dumps(t)
        cp = os.path.join(d, 'selftest.ndjson')
        open(cp, 'w').write('\n'.join(lines) + '\n')
        r = validate_search(cp, 'C11', big=True)
        if r['status'] != 'reject' or r['line'] != 1:
            raise ToolError('self-test failed: score off by one accepted (%s)' % r)
        cov['selftest'] = 'engine score changed by 1 in one case: rejected with %s' % r['fails']
    shutil.rmtree(d, ignore_errors=True)


# ---------------------------------------------------------------------------------------------
# C13

def c13_cases(tier, seed, sizes):
    """sizes: {(fen, depth): nodes of the uninterrupted search}"""
    rng = random.Random(seed)
    cases = []
    gid = 0
    for (fen, depth), s in sizes.items():
        gid += 1
        base = {'fen': fen, 'hist': [], 'depth': depth, 'group': gid, 'cache': 'fresh'}
        cases.append(dict(base))                                   # the uninterrupted run first
        if tier == 'quick':
            if s <= 250:
                budgets = list(range(1, s + 1))                     # every cut point
            else:
                budgets = list(range(1, 101)) + sorted(rng.sample(range(101, s), min(120, s - 101)))
        else:
            if s <= 3000:
                budgets = list(range(1, s + 1))
            else:
                budgets = list(range(1, 501)) + sorted(rng.sample(range(501, s), min(2500, s - 501)))
        for n in budgets:
            cases.append(dict(base, budget=n))
        for _ in range(6 if tier == 'quick' else 40):
            cases.append(dict(base, stop_us=rng.choice([1, 5, 20, 50, 100, 200, 500, 1000, 3000])))
        for _ in range(3 if tier == 'quick' else 20):
            cases.append(dict(base, movetime=rng.choice([1, 1, 2, 3, 5])))
        for _ in range(6 if tier == 'quick' else 40):
            # the game clock: the engine thinks for clock/20 ms (this limit does not clear the running flag itself)
            cases.append(dict(base, clock=rng.choice([1, 10, 20, 30, 40, 60, 100, 200])))
    for i, c in enumerate(cases):
        c['id'] = i
    return cases


def run_c13(tier, seed, verdict, cov):
    d = fresh_dir('c13-%d' % os.getpid())
    rng = random.Random(seed)
    sparse, corner, perft, bench, mates = positions()
    pool = [(f, 3) for f in sparse + mates] + [(f, 2) for f in corner + bench + perft] + [(f, 3) for f in bench[:20]]
    rng.shuffle(pool)
    nbase = 14 if tier == 'quick' else 160
    # candidates beyond the base selection: kept only if the root score RISES from one iteration to the next (then
    # an interruption can find the running iteration ahead of the last completed one: the "partial result" branch)
    pm2 = run_harness(['mate-cands', '--seed', seed + 29, '--n', 40 if tier == 'quick' else 400, '--only', 'm2',
                       '--seeds', os.path.join(ROOT, 'seeds')], timeout=6000)
    m2s = [l.strip() for l in pm2.stdout.split('\n') if l.strip()]       # forced mates in two: the score jumps at iteration 3
    extra = pool[nbase:nbase + (60 if tier == 'quick' else 400)] + [(f, 4) for f in mates] + [(f, 3) for f in m2s] + [(f, 4) for f in m2s[:10]]
    pool = pool[:nbase] + [(f, 4) for f in rng.sample(bench, 3 if tier == 'quick' else 12)]
    # sizes of the uninterrupted searches
    probe = [{'id': i, 'fen': f, 'hist': [], 'depth': dp, 'cache': 'fresh', 'group': i} for i, (f, dp) in enumerate(pool + extra)]
    write_cases(os.path.join(d, 'probe.ndjson'), probe)
    run_harness(['search-trace', '--cases', os.path.join(d, 'probe.ndjson'), '--out', os.path.join(d, 'probe-out.ndjson')], timeout=3000)
    sizes = {}
    allsizes = {}
    rising = set()
    cur = None
    last = None
    for line in open(os.path.join(d, 'probe-out.ndjson')):
        e = json.loads(line)
        if e.get('ev') == 'search':
            cur = (e['fen'], e['depth'])
            last = None
            if e['nodes'] > 3:
                allsizes[cur] = e['nodes']
        elif e.get('ev') == 'ttwrite' and e.get('site') == 'root' and cur is not None:
            if last is not None and e['score'] > last:
                rising.add(cur)
            last = e['score']
    base_keys = set(pool)
    nris = 0
    for k, v in allsizes.items():
        if k in base_keys:
            sizes[k] = v
        elif k in rising and nris < (8 if tier == 'quick' else 60) and v <= (20000 if tier == 'quick' else 60000):
            sizes[k] = v
            nris += 1
    cov['positions_with_rising_root_score'] = len([k for k in sizes if k in rising])
    limit = 1500 if tier == 'quick' else 60000
    big = {k: v for k, v in sizes.items() if limit < v <= 150000}
    sizes = {k: v for k, v in sizes.items() if v <= limit}
    cases = c13_cases(tier, seed, sizes)
    # a few large searches as well (tens of thousands of nodes): only sampled budgets and the asynchronous
    # interruptions, so that limits which are polled rarely or only deep in the tree are exercised too
    gid = max([c['group'] for c in cases] + [0])
    bigl = sorted(big.items(), key=lambda kv: 0 if kv[0] in rising else 1)       # rising root scores first
    for (fen, depth), sz in bigl[:6 if tier == 'quick' else 24]:
        gid += 1
        base = {'fen': fen, 'hist': [], 'depth': depth, 'group': gid, 'cache': 'fresh'}
        cases.append(dict(base))
        for nb in sorted(rng.sample(range(1, sz), 12)):
            cases.append(dict(base, budget=nb))
        for c in [1, 1, 10, 20, 40, 100, 200, 400]:
            cases.append(dict(base, clock=c))
        for m in [1, 2, 5]:
            cases.append(dict(base, movetime=m))
        for u in [50, 500, 2000, 5000]:
            cases.append(dict(base, stop_us=u))
    for i, c in enumerate(cases):
        c['id'] = i
    # groups must stay together; split groups over workers
    groups = {}
    for c in cases:
        groups.setdefault(c['group'], []).append(c)
    parts = max(1, min(NCPU - 2, len(groups)))
    if tier == 'thorough':
        parts = max(1, min(len(groups), 4 * (NCPU - 2)))     # smaller event files (each is one TLC run)
    buckets = [[] for _ in range(parts)]
    load = [0] * parts
    for g, cs in sorted(groups.items(), key=lambda kv: -len(kv[1])):
        i = load.index(min(load))
        buckets[i] += cs
        load[i] += len(cs)

    def rec(i):
        cp = os.path.join(d, 'c13-cases-%d.ndjson' % i)
        write_cases(cp, buckets[i])
        out = os.path.join(d, 'c13-%02d.ndjson' % i)
        run_harness(['search-trace', '--cases', cp, '--out', out], timeout=6000)
        return out
    with cf.ThreadPoolExecutor(max_workers=min(parts, NCPU - 2)) as ex:
        files = list(ex.map(rec, range(parts)))
    with cf.ThreadPoolExecutor(max_workers=min(parts, NCPU - 2 if tier == 'quick' else 8)) as ex:
        results = list(ex.map(lambda f: validate_search(f, 'C13', big=True), files))
    writes = runs = interrupted = 0
    samples = []
    for f, r in zip(files, results):
        if r['status'] == 'error':
            log(r.get('detail', '')[-3000:])
            raise ToolError('SearchTrace (C13) failed to run on %s' % f)
        cov['states'] = cov.get('states', 0) + r.get('states', 0)
        cov['transitions'] = cov.get('transitions', 0) + max(0, r.get('states', 0) - 1)
        evs = None
        if r['status'] == 'accept':
            cov['traces_validated_against_impl'] = cov.get('traces_validated_against_impl', 0) + 1
        else:
            evs = read_events(f, r['line'])
            srch = [e for e in evs if e.get('ev') == 'search'][-1]
            sig = {'kind': 'cache-write', 'fen': srch['fen'], 'depth': srch['depth'], 'budget': srch['budget'],
                   'movetime': srch['movetime'], 'stop_us': srch['stop_us'], 'fails': r['fails']}
            if srch['stop_us'] != -1 or srch['movetime'] != -1 or srch.get('clock', -1) != -1:
                sig = {'kind': 'cache-write', 'fen': srch['fen'], 'depth': srch['depth'], 'interruption': 'asynchronous', 'fails': r['fails']}
            verdict.report(sig, {'how': 'recorded search rejected by SearchTrace.tla (C13)', 'event': evs[-1], 'search': srch},
                           trace_src=f, cut_line=r['line'])
        for line in open(f):
            e = json.loads(line)
            if e['ev'] == 'ttwrite':
                writes += 1
            elif e['ev'] == 'search':
                runs += 1
                if len(samples) < 2 and e['budget'] > 5:
                    samples.append({k: e[k] for k in ('fen', 'depth', 'budget', 'nodes', 'best')})
            elif e['ev'] == 'abort':
                interrupted += 1
    if interrupted == 0:
        raise ToolError('vacuity: no abort event was recorded in any interrupted search (hook placement?)')
    cov['evaluations'] = runs
    cov['cache_write_events'] = writes
    cov['abort_events'] = interrupted
    cov['positions'] = len(sizes)
    cov['distinct_nontrivial'] = len({(c['fen'], c['depth'], c.get('budget'), c.get('stop_us'), c.get('movetime'), c.get('clock')) for c in cases})
    cov['samples'] = samples or ['(none)']
    # self-test: move one write of an interrupted run after its abort
    if not verdict.violations:
        src = files[0]
        lines = open(src).read().strip().split('\n')
        evs = [json.loads(x) for x in lines]
        done = None
        for i in range(len(evs) - 2):
            if evs[i]['ev'] == 'ttwrite' and evs[i + 1]['ev'] == 'abort':
                lines[i], lines[i + 1] = lines[i + 1], lines[i]
                done = i + 2
                break
        if done is None:
            raise ToolError('self-test: no write directly before an abort in the first batch')
        cp = os.path.join(d, 'selftest.ndjson')
        open(cp, 'w').write('\n'.join(lines) + '\n')
        r = validate_search(cp, 'C13', big=True)
        if r['status'] != 'reject' or r['line'] != done:
            raise ToolError('self-test failed: write moved after abort (line %d) not rejected there: %s' % (done, r))
        cov['selftest'] = 'a cache write moved after the abort event (line %d) was rejected: %s' % (done, r['fails'])
    shutil.rmtree(d, ignore_errors=True)


# ---------------------------------------------------------------------------------------------
# C12

PRE = [[], [1], [2], [4], [2, 4], [3]]
PRE_THOROUGH = PRE + [[5], [5, 2]]


def run_c12_probes(tier, seed, verdict, cov, cases, d):
    """Conformance of the cache probe with the design model: every probe of the cached searches (entry found,
    remaining depth, window) with what the node did next is judged by TLC with ProbeOutcome of TTProbe.tla -
    the rule used at label e1a of Search.tla."""
    parts = max(1, min(NCPU - 2, 12))
    cap = 25000 if tier == 'quick' else 250000
    rnd = random.Random(seed * 7 + 1)
    pool = [c for c in cases if c['pre'] or c['depth'] == 4] + [c for c in cases if not c['pre'] and c['depth'] == 3][:200]
    rnd.shuffle(pool)
    chunks = [pool[i::parts] for i in range(parts)]
    chunks = [c for c in chunks if c]

    def rec(i):
        cp = os.path.join(d, 'probe-cases-%d.ndjson' % i)
        write_cases(cp, chunks[i])
        out = os.path.join(d, 'probe-%02d.ndjson' % i)
        p = run_harness(['probe-trace', '--cases', cp, '--out', out, '--cap', cap], timeout=6000)
        return out, json.loads(p.stdout.strip().split('\n')[-1])
    with cf.ThreadPoolExecutor(max_workers=len(chunks)) as ex:
        outs = list(ex.map(rec, range(len(chunks))))
    with cf.ThreadPoolExecutor(max_workers=len(chunks)) as ex:
        results = list(ex.map(lambda o: validate_search(o[0], 'PROBE', big=tier != 'quick'), outs))
    judged = 0
    for (f, info), r in zip(outs, results):
        if r['status'] == 'error':
            log(r.get('detail', '')[-3000:])
            raise ToolError('SearchTrace (PROBE) failed to run on %s' % f)
        cov['states'] = cov.get('states', 0) + max(1, r.get('states', 0))
        if r['status'] == 'accept':
            cov['traces_validated_against_impl'] = cov.get('traces_validated_against_impl', 0) + 1
            judged += r['nums'][1]
            if r['nums'][1] != info['probes']:
                raise ToolError('PROBE: %d probes recorded, %d judged in %s' % (info['probes'], r['nums'][1], f))
        else:
            ev = read_events(f, r['line'] + 1)
            head = [e for e in ev if e.get('ev') == 'psearch'][-1]
            case = [c for c in pool if c['id'] == head['id']][0]
            sig = {'kind': 'probe-rule', 'fen': case['fen'], 'pre': case['pre'], 'depth': case['depth'], 'fails': r['fails']}
            verdict.report(sig, {'how': 'a transposition-table probe of the real search is not an outcome of ProbeOutcome (TTProbe.tla / Search.tla e1a)',
                                 'probe': ev[r['line'] - 1], 'then': ev[r['line']] if len(ev) > r['line'] else None,
                                 'search': head})
    cov['probes_judged'] = judged
    cov['probe_cases'] = sum(i['cases'] for _, i in outs)
    if judged < 100:
        raise ToolError('vacuity: only %d cache probes recorded' % judged)
    if not verdict.violations:
        # self-test: change the window a node went on with after a probe
        f = outs[0][0]
        lines = open(f).read().strip().split('\n')
        for i, x in enumerate(lines):
            e = json.loads(x)
            if e['ev'] == 'probed':
                e['beta'] -= 1
                lines[i] = json.dumps(e)
                cp = os.path.join(d, 'selftest-probe.ndjson')
                open(cp, 'w').write('\n'.join(lines) + '\n')
                r = validate_search(cp, 'PROBE')
                if r['status'] != 'reject' or r['line'] != i:
                    raise ToolError('self-test failed: altered window after a probe accepted (%s)' % r)
                cov['selftest_probe'] = 'window after a probe altered in the recorded trace: rejected with %s' % r['fails']
                break
        else:
            raise ToolError('self-test: no probed event')


def prove_probe_rule(cov, d):
    """TLAPS: the probe rule (TTProbe.tla) is sound for true entries and ignores entries that are too shallow
    (spec/TTProbeProofs.tla, all integers).  Sensitivity: the same theorems about a rule whose upper-bound arm
    lacks the depth guard must NOT be provable."""
    import subprocess

    def tlapm(dirname, mutate):
        w = os.path.join(d, dirname)
        os.makedirs(w, exist_ok=True)
        for f in ('TTProbe.tla', 'TTProbeProofs.tla'):
            txt = open(os.path.join(SPEC, f)).read()
            if mutate and f == 'TTProbe.tla':
                old = 'b2 == IF e.bound = "U" /\\ e.score < b THEN e.score ELSE b IN'
                if old not in txt:
                    raise ToolError('prove_probe_rule: TTProbe.tla changed, sensitivity variant cannot be derived')
                txt = txt.replace('IF e.depth < dp THEN', 'IF e.depth < dp /\\ e.bound # "U" THEN')
            open(os.path.join(w, f), 'w').write(txt)
        try:
            p = subprocess.run(['timeout', '600', 'tlapm', '--threads', '4', '--cleanfp', 'TTProbeProofs.tla'], cwd=w,
                               stdout=subprocess.PIPE, stderr=subprocess.STDOUT, text=True)
        except OSError as e:
            raise ToolError('tlapm could not be run: %s' % e)
        return p.stdout
    out = tlapm('tlaps', False)
    m = re.search(r'All (\d+) obligations? proved', out)
    if not m:
        log(out[-3000:])
        raise ToolError('TLAPS did not prove spec/TTProbeProofs.tla')
    out2 = tlapm('tlaps-mut', True)
    m2 = re.search(r'(\d+)/(\d+) obligations? failed', out2)
    if re.search(r'All (\d+) obligations? proved', out2) or not m2:
        log(out2[-3000:])
        raise ToolError('TLAPS sensitivity: the theorems are provable for a rule without the depth guard (vacuous statement?)')
    cov['tlaps'] = {'spec/TTProbeProofs.tla': '%s obligations proved (ReturnSound, NarrowedWindowInside, NarrowSound, UsedOnlyIfDeepEnough, ShallowIgnored; all integers)' % m.group(1),
                    'sensitivity': 'rule without the depth guard on the upper-bound arm: %s of %s obligations fail' % (m2.group(1), m2.group(2))}


def run_c12_stores(tier, seed, verdict, cov, fens, d):
    """Every cache write of the real search is true of the node it is stored for (EntriesTrue of Search.tla on
    the real entries): searches of the C12 positions with the probes neutralised, the un-pruned tree dumped with
    the Board API, TLC compares each written (score, depth, bound) with the look-ahead value of that node."""
    parts = max(1, min(NCPU - 2, 12))
    rnd = random.Random(seed * 11 + 3)
    fl = list(fens)
    rnd.shuffle(fl)
    fl = fl[:150 if tier == 'quick' else 3000]
    cases = [{'id': i, 'fen': f, 'hist': [], 'depth': 2 + (i % 2)} for i, f in enumerate(fl)]
    nch = parts if tier == 'quick' else 48
    chunks = [cases[i::nch] for i in range(nch)]
    chunks = [c for c in chunks if c]

    def steps(i):
        cp = os.path.join(d, 'store-cases-%d.ndjson' % i)
        write_cases(cp, chunks[i])
        out = os.path.join(d, 'store-%02d.ndjson' % i)
        run_harness(['search-steps', '--cases', cp, '--out', out, '--cap', 8000 if tier == 'quick' else 40000], timeout=6000)
        return out
    with cf.ThreadPoolExecutor(max_workers=parts) as ex:
        sfiles = [f for f in ex.map(steps, range(len(chunks))) if os.path.getsize(f) > 0]
    with cf.ThreadPoolExecutor(max_workers=parts if tier == 'quick' else 5) as ex:
        sres = list(ex.map(lambda f: validate_search(f, 'STORE', big=True), sfiles))
    writes = 0
    for f, r in zip(sfiles, sres):
        if r['status'] == 'error':
            log(r.get('detail', '')[-3000:])
            raise ToolError('SearchTrace (STORE) failed to run on %s' % f)
        cov['states'] = cov.get('states', 0) + r.get('states', 0)
        if r['status'] == 'accept':
            cov['traces_validated_against_impl'] = cov.get('traces_validated_against_impl', 0) + 1
            writes += r['nums'][1]
        else:
            hdr = None
            ev = None
            path = {}
            with open(f) as fh:
                for ln, line in enumerate(fh, 1):
                    if '"ev":"tree"' in line[:20]:
                        hdr = json.loads(line)
                        path = {}
                    elif '"ev":"down"' in line[:20]:
                        e = json.loads(line)
                        path = {k: v for k, v in path.items() if k < e['ply']}
                        path[e['ply']] = e['mv']
                    if ln == r['line']:
                        ev = json.loads(line)
                        break
            line_moves = [path[k] for k in sorted(path) if k <= ev.get('ply', 0)]
            sig = {'kind': 'store-rule', 'fen': hdr['fen'], 'depth': hdr['depth'], 'line': line_moves, 'fails': r['fails']}
            verdict.report(sig, {'how': 'a cache entry written by the real search is not true of its node (SearchTrace.tla STORE / EntriesTrue of Search.tla)',
                                 'event': ev})
    cov['cache_writes_judged'] = writes
    if writes < 100 and not verdict.violations:
        raise ToolError('vacuity: only %d cache writes judged' % writes)
    if not verdict.violations and sfiles:
        # self-test: a root entry (Exact) whose score is changed by one must be rejected
        lines = open(sfiles[0]).read().strip().split('\n')
        for i, x in enumerate(lines):
            if x.startswith('{"ev":"ttwrite"') and '"site":"root"' in x:
                e = json.loads(x)
                e['score'] -= 1
                lines[i] = json.dumps(e)
                cp = os.path.join(d, 'selftest-store.ndjson')
                open(cp, 'w').write('\n'.join(lines) + '\n')
                r = validate_search(cp, 'STORE', big=True)
                if r['status'] != 'reject' or r['line'] != i + 1:
                    raise ToolError('self-test failed: altered exact entry accepted (%s)' % r)
                cov['selftest_store'] = 'the score of an exact entry changed by one in the recorded trace: rejected with %s' % r['fails']
                break


def run_c12(tier, seed, verdict, cov):
    d = fresh_dir('c12-%d' % os.getpid())
    npos = 200 if tier == 'quick' else 1500
    nwide = 700 if tier == 'quick' else 8000       # further positions searched once (depth 3, empty cache): cheap, wide
    gparts = max(1, min(NCPU - 2, 12))

    def gen(i):
        p = run_harness(['mate-cands', '--seed', seed * 100 + i, '--n', (npos + nwide + gparts - 1) // gparts, '--seeds', os.path.join(ROOT, 'seeds')], timeout=6000)
        return [l.strip() for l in p.stdout.split('\n') if l.strip()]
    with cf.ThreadPoolExecutor(max_workers=gparts) as ex:
        allf = sorted(set(sum(ex.map(gen, range(gparts)), [])))
    random.Random(seed).shuffle(allf)
    fens = allf[:npos]
    wide = allf[npos:]
    sparse, corner, perft, bench, mates = positions()
    for f in mates:
        q = f.split()
        q[4] = '0'
        fens.append(' '.join(q))
    cases = []
    QUICK = [([], 3), ([], 4), ([2, 4], 3), ([4], 3), ([3], 3), ([1], 4)]
    for f in fens:
        if tier == 'quick':
            plan = QUICK
        else:
            plan = [(pre, depth) for pre in PRE for depth in (3, 4) if not (pre == [3] and depth != 3)]
            if len(cases) % 5 == 0:
                plan += [([5], 3), ([5, 2], 4)]      # on top of a completed depth-5 search (costly: every fifth position)
        for pre, depth in plan:
            cases.append({'id': len(cases), 'fen': f, 'pre': pre, 'depth': depth})
        # "once the engine has completed a 3-ply iteration": also a depth-4 search cut short by a node budget that
        # falls inside its fourth iteration (three cut points; thorough: seven), from an empty cache (where the end
        # of the third iteration is known exactly: the node count of the depth-3 search)
        for cut in ([0.15, 0.5, 0.85] if tier == 'quick' else [0.05, 0.2, 0.35, 0.5, 0.65, 0.8, 0.95]):
            cases.append({'id': len(cases), 'fen': f, 'pre': [], 'depth': 4, 'cut': cut})
    for f in wide:
        cases.append({'id': len(cases), 'fen': f, 'pre': [], 'depth': 3})
    fens = fens + wide
    parts = max(1, min(NCPU - 2, 12))
    # keep the cases of one position together (facts are computed once per position)
    per = (len(fens) + parts - 1) // parts
    by_fen = {}
    for c in cases:
        by_fen.setdefault(c['fen'], []).append(c)
    fl = list(by_fen)
    chunks = [sum((by_fen[f] for f in fl[i * per:(i + 1) * per]), []) for i in range(parts)]
    chunks = [c for c in chunks if c]

    def rec(i):
        cp = os.path.join(d, 'c12-cases-%d.ndjson' % i)
        write_cases(cp, chunks[i])
        out = os.path.join(d, 'c12-%02d.ndjson' % i)
        run_harness(['mate-facts', '--cases', cp, '--out', out], timeout=6000)
        return out
    with cf.ThreadPoolExecutor(max_workers=len(chunks)) as ex:
        files = list(ex.map(rec, range(len(chunks))))
    with cf.ThreadPoolExecutor(max_workers=len(chunks)) as ex:
        results = list(ex.map(lambda f: validate_search(f, 'C12'), files))
    applicable = 0
    for f, r in zip(files, results):
        if r['status'] == 'error':
            log(r.get('detail', '')[-3000:])
            raise ToolError('SearchTrace (C12) failed to run on %s' % f)
        cov['states'] = cov.get('states', 0) + max(1, r.get('states', 0))
        cov['transitions'] = cov.get('transitions', 0) + 1
        if r['status'] == 'accept':
            cov['traces_validated_against_impl'] = cov.get('traces_validated_against_impl', 0) + 1
            applicable += r['nums'][1]
        else:
            e = read_events(f, r['line'])[-1]
            sig = {'kind': 'mate-level', 'fen': e['fen'], 'depth': e['depth'], 'pre': e['pre'], 'fails': r['fails']}
            if e.get('budget', -1) != -1:
                sig['node_budget'] = e['budget']
                sig['cut'] = [c.get('cut') for c in cases if c['id'] == e['id']][0]
            verdict.report(sig, {'how': 'chosen move violates a clause of C12 evaluated by TLC on the 3-ply facts',
                                 'best': e['best'], 'score': e['score'], 'facts': e['facts']})
    cov['evaluations'] = len(cases)
    cov['positions'] = len(fens)
    cov['distinct_nontrivial'] = applicable
    cov['samples'] = [{'fen': c['fen'], 'pre': c['pre'], 'depth': c['depth']} for c in cases[:3]]
    if applicable < 2:
        raise ToolError('vacuity: fewer than 2 applicable (position, cache history, depth) cases')
    run_c12_probes(tier, seed, verdict, cov, cases, d)
    run_c12_stores(tier, seed, verdict, cov, fens, d)
    prove_probe_rule(cov, d)
    # self-test: replace the chosen move of an applicable mate-in-1 case by a non-mating one
    if not verdict.violations:
        done = False
        for f in files:
            lines = open(f).read().strip().split('\n')
            for i, x in enumerate(lines):
                e = json.loads(x)
                non = [q['mv'] for q in e['facts'] if not q['mates']]
                if any(q['mates'] for q in e['facts']) and non:
                    e['best'] = non[0]
                    lines[i] = json.dumps(e)
                    cp = os.path.join(d, 'selftest.ndjson')
                    open(cp, 'w').write('\n'.join(lines) + '\n')
                    r = validate_search(cp, 'C12')
                    if r['status'] != 'reject' or r['line'] != i + 1:
                        raise ToolError('self-test failed: missed mate in one accepted (%s)' % r)
                    cov['selftest'] = 'chosen move replaced by a non-mating move in a mate-in-1 case: rejected with %s' % r['fails']
                    done = True
                    break
            if done:
                break
        if not done:
            raise ToolError('self-test: no mate-in-1 case among the candidates')
    shutil.rmtree(d, ignore_errors=True)


# ---------------------------------------------------------------------------------------------
# C16

def busy(stop_file):
    return subprocess.Popen(['python3', '-c', 'import os\nwhile not os.path.exists(%r):\n    for _ in range(10**6): pass' % stop_file])


def run_c16(tier, seed, verdict, cov):
    d = fresh_dir('c16-%d' % os.getpid())
    rng = random.Random(seed)
    sparse, corner, perft, bench, mates = positions()
    pool = bench + perft + corner + sparse
    rng.shuffle(pool)
    pool = pool[:60 if tier == 'quick' else 160]
    maxd = 3 if tier == 'quick' else 4
    cases = []
    for f in pool:
        for dp in range(1, maxd + 1):
            cases.append({'id': len(cases), 'fen': f, 'hist': [], 'depth': dp})
    gs = games(seed, 10, 20)
    for fen, moves in gs:
        cases.append({'id': len(cases), 'fen': fen, 'hist': moves, 'depth': 2})
    # a few deep searches (millions of nodes: the cache grows large)
    for f, dp in [(bench[0], 7), (bench[21], 6), (bench[26], 6)] + ([(bench[12], 7), (bench[2], 7)] if tier == 'thorough' else []):
        cases.append({'id': len(cases), 'fen': f, 'hist': [], 'depth': dp})
    cp = os.path.join(d, 'cases.ndjson')
    write_cases(cp, cases)
    outs = []

    def proc(tag, reps):
        out = os.path.join(d, 'det-%s.ndjson' % tag)
        run_harness(['determinism', '--cases', cp, '--out', out, '--reps', reps, '--tag', tag], timeout=6000)
        return out
    # three runs in one process; three separate processes; one under CPU load
    outs.append(proc('same', 3))
    with cf.ThreadPoolExecutor(max_workers=3) as ex:
        outs += list(ex.map(lambda t: proc(t, 1), ['p1', 'p2', 'p3']))
    stop_file = os.path.join(d, 'stop')
    hogs = [busy(stop_file) for _ in range(NCPU)]
    try:
        outs.append(proc('load', 1))
    finally:
        open(stop_file, 'w').close()
        for h in hogs:
            h.wait()
    # bench: the release build of /repo's working tree, several times, once under load
    bench_nodes = []
    tgt = os.path.join(WORK, 'repo-target')
    b = subprocess.run(['cargo', 'build', '--release', '--offline', '--target-dir', tgt], cwd=REPO,
                       stdout=subprocess.PIPE, stderr=subprocess.STDOUT, text=True, env=dict(os.environ, CARGO_NET_OFFLINE='true'))
    if b.returncode != 0:
        raise ToolError('release build of /repo failed: ' + b.stdout[-1500:])
    exe = os.path.join(tgt, 'release', 'rust_chess_engine')
    nb = 2 if tier == 'quick' else 5

    def bench_run(_):
        p = subprocess.run([exe, 'bench'], stdout=subprocess.PIPE, stderr=subprocess.PIPE, text=True, timeout=3000)
        m = re.findall(r'(\d+) nodes', p.stdout)
        return int(m[-1]) if m else -1
    def bench_paused(_):
        # machine load as the scheduler sees it: the process is descheduled for a few seconds in mid-search
        import signal
        p = subprocess.Popen([exe, 'bench'], stdout=subprocess.PIPE, stderr=subprocess.PIPE, text=True)
        time.sleep(2.0)
        p.send_signal(signal.SIGSTOP)
        time.sleep(6.5)
        p.send_signal(signal.SIGCONT)
        out, _ = p.communicate(timeout=3000)
        m = re.findall(r'(\d+) nodes', out)
        return int(m[-1]) if m else -1

    def bench_pinned(_):
        # one CPU shared with busy loops (every search takes several times longer)
        hogs = [subprocess.Popen(['taskset', '-c', '0', 'python3', '-c', 'while True: pass']) for _ in range(4)]
        try:
            p = subprocess.run(['taskset', '-c', '0', exe, 'bench'], stdout=subprocess.PIPE, stderr=subprocess.PIPE, text=True, timeout=3000)
        finally:
            for h in hogs:
                h.kill()
        m = re.findall(r'(\d+) nodes', p.stdout)
        return int(m[-1]) if m else -1
    with cf.ThreadPoolExecutor(max_workers=nb + 2) as ex:
        futs = [ex.submit(bench_run, i) for i in range(nb)] + [ex.submit(bench_paused, 0)]
        if tier == 'thorough':
            futs.append(ex.submit(bench_pinned, 0))
        bench_nodes = [f.result() for f in futs]
    merged = os.path.join(d, 'det-all.ndjson')
    with open(merged, 'w') as fo:
        for o in outs:
            fo.write(open(o).read())
        for i, n in enumerate(bench_nodes):
            fo.write(json.dumps({'ev': 'result', 'case': -1, 'depth': 0, 'run': 'bench-%d' % i, 'best': 'bench', 'score': 0,
                                 'nodes': n, 'panicked': n < 0}) + '\n')
    r = validate_search(merged, 'C16', big=True)
    if r['status'] == 'error':
        log(r.get('detail', '')[-3000:])
        raise ToolError('SearchTrace (C16) failed to run')
    cov['states'] = max(1, r.get('states', 0))
    cov['transitions'] = 1
    evs = read_events(merged)
    if r['status'] == 'accept':
        cov['traces_validated_against_impl'] = 1
    else:
        e = evs[r['line'] - 1]
        others = [x for x in evs[:r['line'] - 1] if x['case'] == e['case'] and x['depth'] == e['depth']]
        c = cases[e['case']] if e['case'] >= 0 else {'fen': 'bench', 'hist': [], 'depth': 0}
        verdict.report({'kind': 'nondeterministic', 'fen': c['fen'], 'hist': c['hist'], 'depth': e['depth']},
                       {'how': 'repeated searches from an empty cache gave different results', 'this': e, 'earlier': others[:3]})
    cov['evaluations'] = len(evs)
    cov['distinct_nontrivial'] = len({(e['case'], e['depth']) for e in evs})
    cov['bench_node_totals'] = bench_nodes
    cov['samples'] = evs[:2] + evs[-1:]
    if not verdict.violations:
        lines = open(merged).read().strip().split('\n')
        e = json.loads(lines[-2])
        e['nodes'] += 1
        lines[-2] = json.dumps(e)
        cp2 = os.path.join(d, 'selftest.ndjson')
        open(cp2, 'w').write('\n'.join(lines) + '\n')
        r2 = validate_search(cp2, 'C16', big=True)
        if r2['status'] != 'reject':
            raise ToolError('self-test failed: a differing node count was accepted')
        cov['selftest'] = 'one node count changed by 1: rejected'
    shutil.rmtree(d, ignore_errors=True)
    shutil.rmtree(tgt, ignore_errors=True)


# ---------------------------------------------------------------------------------------------

def mc_search(prop, tier, cov):
    import search_mc
    search_mc.run(prop, tier, cov)


RULES = {
    'C11': 'cases (position, game history, depth): sparse endgames to depth 4, rule-corner and middlegame positions to depth 1-3, histories that make children repetitions, half-move clocks 95..99; each judged by TLC evaluating RootVal on the dumped un-pruned tree; distinct = distinct cases',
    'C12': 'candidate positions from random playouts and a mate suite, loaded from FEN (no history, half-move clock <= 10), filtered by the 3-ply analysis; each searched to depth 3 and 4 under cache histories {empty, d1, d2, d4, d2+d4, d3 twice}; non-trivial = (position, history, depth) cases where a clause of the property applies (counted by TLC); plus the two mechanisms the property rests on, bound to the model: every cache probe of these searches judged by ProbeOutcome of TTProbe.tla (mode PROBE), and every cache write of probe-free searches of the positions compared with the look-ahead value of its node (mode STORE, EntriesTrue of Search.tla)',
    'C13': 'for each position the uninterrupted search and EVERY node budget 1..S (or all <= 100/500 plus a sample for large S), plus asynchronous stop-flag and 1-5 ms movetime interruptions; every cache write and abort-return is an event; distinct = distinct (position, depth, interruption)',
    'C16': 'each (position, depth) searched 3x in one process, in 3 separate processes and once under full CPU load; bench of the release build run several times concurrently; distinct = distinct (position, depth)',
}


def run(prop, tier, seed):
    t0 = time.time()
    verdict = Verdict(prop, seed)
    cov = {'states': 0, 'transitions': 0, 'traces_validated_against_impl': 0}
    build_harness()
    {'C11': run_c11, 'C12': run_c12, 'C13': run_c13, 'C16': run_c16}[prop](tier, seed, verdict, cov)
    mc_search(prop, tier, cov)
    cov['rule'] = RULES[prop]
    cov['checker_cmd'] = 'tlc spec/Search.tla (all small trees); tlc -workers 1 spec/SearchTrace.tla Mode=%s (TRACE=<batch>)' % prop
    cov['trusted_base'] = ['TLC 1.8 + CommunityModules', 'tree dumper / fact generator in h_search.rs (Board API only; move generator as established by C01)',
                           'cfg(rce_verif) observers at the cache insert sites and abort returns']
    write_evidence(prop, tier, seed, 'model_checking', cov,
                   ['the look-ahead game is the one defined in SearchTrace.tla / Search.tla (DESIGN 4.3)',
                    'C11 runs with caching neutralised by the add-only hook before the probe'],
                   time.time() - t0, len(verdict.violations))
    return verdict.exit_code()
