"""Model checking of Search.tla (the alpha-beta/PVS/TT/abort algorithm on all small trees)."""
def run(prop, tier, cov):
    cov.setdefault('mc', {})
