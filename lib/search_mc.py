"""Model checking of Search.tla (the alpha-beta / PVS / TT / abort / iterative-deepening algorithm) on
all small trees of a family, all move orders, all node budgets and every moment of an asynchronous stop."""
import concurrent.futures as cf
import os
import re

from vlib import *

CFG = '''SPECIFICATION MCSpec
CONSTANTS
  B = %(B)d
  D = %(D)d
  Vals <- %(vals)s
  UseTT = %(tt)s
  Twins <- %(twins)s
  MaxBudget = %(budget)d
  AbortChecked = %(abort)s
  RootTestFirst = %(rootfirst)s
  InteriorEval = %(inteval)d
  Fallback = %(fallback)s
  defaultInitValue = defaultInitValue
INVARIANTS ValueExact NodeContract WritesClean EntriesTrue OneBest NoPanic InfoOrdered AllDepths PartialSound AnswerIsAValue
PROPERTY Terminates
CHECK_DEADLOCK FALSE
'''


def run(prop, tier, cov):
    base = dict(B=2, D=2, vals='Vals3', tt='FALSE', twins='NoTwins', budget=4, abort='TRUE', fallback='TRUE', rootfirst='TRUE', inteval=0)
    runs = [('all trees B=2 D=2 evals {-1,0,1}, cache probes off, budgets 0..4 and none', dict(base), True, 12),
            ('same family with a transposing pair of nodes and cache probes on', dict(base, tt='TRUE', twins='OneTwin'), True, 2),
            ('legacy: no re-test after a child returns', dict(base, abort='FALSE', budget=2), False, 2),
            ('legacy: no fallback move', dict(base, fallback='FALSE', budget=1), False, 2),
            ('variant: the root compares the child score with alpha before testing for the interruption', dict(base, rootfirst='FALSE', inteval=1), False, 4),
            ('all trees B=2 D=2 evals {-1,0,1}, shallower iterations see evaluation 1 (the mover stands worse), probes off, budgets 0..4 and none', dict(base, inteval=1), True, 8)]
    big = tier == 'thorough' and prop in ('C11', 'C13')      # the 23 M-state configuration once per property it serves
    if big:
        runs.insert(1, ('all trees B=2 D=3 evals {0,1}, cache probes off, budget 0 and none',
                        dict(base, D=3, vals='Vals2', budget=0), True, 14))
    cov.setdefault('mc', {})

    def one(r):
        name, c, expect_ok, workers = r
        res = model_check('MCSearch.tla', CFG % c, 'search-mc-%s-%d-%d' % (prop, os.getpid(), runs.index(r)),
                          workers=workers, timeout=6000)
        return r, res
    # the big runs one after the other, the small ones together
    nbig = 2 if big else 1
    results = [one(r) for r in runs[:nbig]]
    with cf.ThreadPoolExecutor(max_workers=4) as ex:
        results += list(ex.map(one, runs[nbig:]))
    for (name, c, expect_ok, _), res in results:
        if expect_ok and not res['ok']:
            log(res['out'][-3000:])
            raise ToolError('Search.tla violates its own properties (%s): model bug' % name)
        if not expect_ok and res['ok']:
            raise ToolError('model sensitivity: %s produced no counterexample' % name)
        if expect_ok:
            cov['states'] = cov.get('states', 0) + res['distinct']
            cov['transitions'] = cov.get('transitions', 0) + res['generated']
            cov['mc']['Search: ' + name] = {'distinct_states': res['distinct'], 'generated': res['generated'],
                                            'properties': 'ValueExact NodeContract WritesClean EntriesTrue OneBest NoPanic InfoOrdered AllDepths PartialSound AnswerIsAValue Terminates'}
        else:
            m = re.search(r'Invariant (\w+) is violated', res['out'])
            cov['mc']['Search: ' + name] = 'counterexample found: %s' % (m.group(1) if m else 'violation')
