#!/usr/bin/env python3
"""Prints the markdown table of seeded changes and which checks caught them (from seeded/*/meta.json)."""
import json, os
ROOT = os.path.dirname(os.path.dirname(os.path.abspath(__file__)))
rows = []
for d in sorted(os.listdir(os.path.join(ROOT, 'seeded'))):
    mp = os.path.join(ROOT, 'seeded', d, 'meta.json')
    if not os.path.exists(mp):
        rows.append((d, '?', 'not yet evaluated', '', ''))
        continue
    m = json.load(open(mp))
    needs = m.get('needs', '')
    if isinstance(needs, str):
        needs = ' '.join(needs.split())[:160]
    det = m.get('detected_by', {})
    caught = ', '.join(k for k, v in det.items() if v) or '-'
    missed = ', '.join(k for k, v in det.items() if not v) or '-'
    conf = m.get('confirmed')
    conf = 'yes' if (conf is True or (isinstance(conf, dict) and conf.get('confirmed'))) else ('pinned-tree behaviour' if isinstance(conf, str) else 'NO')
    rows.append((d, m.get('breaks', '?'), conf, caught, missed))
print('| seeded change | breaks | confirmed (suite passes, demo fails/passes) | caught by (quick tier) | run but not caught |')
print('|---|---|---|---|---|')
for r in rows:
    print('| %s | %s | %s | %s | %s |' % r)
