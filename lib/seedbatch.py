#!/usr/bin/env python3
"""seedbatch.py <srcdir> <PROP-for-each-mutation,...> : imports mutationN.patch/demoN.*/mutationN.md from a
sub-agent's scratch worktree into /verif/seeded/<id>/, confirms each one in a fresh scratch worktree and runs
the named checks against it (applied to /repo, then restored). Usage:
   seedbatch.py /tmp/wt/C04 C04:C04,C05 C04:C04,C07 C05:C05,C04
(one argument per mutation: <property it breaks>:<checks to run>)"""
import json, os, re, shutil, sys
sys.path.insert(0, os.path.dirname(os.path.abspath(__file__)))
import seedtest
ROOT = os.path.dirname(os.path.dirname(os.path.abspath(__file__)))

src = sys.argv[1]
specs = sys.argv[2:]
tag = os.path.basename(src.rstrip('/'))
for i, spec in enumerate(specs, 1):
    prop, checks = spec.split(':')
    checks = checks.split(',')
    mid = '%s-%s-m%d' % (prop, tag, i) if tag != prop else '%s-m%d' % (prop, i)
    d = os.path.join(ROOT, 'seeded', mid)
    os.makedirs(d, exist_ok=True)
    mut = os.path.join(src, 'mutation%d.patch' % i)
    if not os.path.exists(mut):
        print('missing', mut); continue
    shutil.copy(mut, os.path.join(d, 'patch.diff'))
    demo = None
    for cand in os.listdir(src):
        if cand.startswith('demo%d.' % i):
            demo = os.path.join(src, cand)
            shutil.copy(demo, os.path.join(d, cand.replace('demo%d' % i, 'demo')))
            if not cand.endswith('.patch'):
                os.chmod(os.path.join(d, cand.replace('demo%d' % i, 'demo')), 0o755)
    md = os.path.join(src, 'mutation%d.md' % i)
    if os.path.exists(md):
        shutil.copy(md, os.path.join(d, 'notes.md'))
    flt = ''
    if demo and demo.endswith('.patch'):
        txt = open(demo).read() + (open(md).read() if os.path.exists(md) else '')
        m = re.search(r'cargo test --offline\s+([A-Za-z0-9_:]+)', txt)
        flt = m.group(1) if m else ''
    print('=== %s verify (filter %r)' % (mid, flt), flush=True)
    v = seedtest.verify(os.path.join(d, 'patch.diff'), os.path.join(d, os.path.basename(demo).replace('demo%d' % i, 'demo')) if demo else '', flt)
    print('=== %s detect %s' % (mid, checks), flush=True)
    det = seedtest.detect(os.path.join(d, 'patch.diff'), checks)
    meta = {'id': mid, 'breaks': prop, 'source': 'independent sub-agent given only the property text and a scratch worktree',
            'needs': (open(md).read()[:1500] if os.path.exists(md) else ''),
            'confirmed': v, 'ran': {'verify': 'lib/seedtest.py verify patch.diff demo %s' % flt,
                                    'detect': 'lib/seedtest.py detect patch.diff ' + ' '.join(checks)},
            'detected_by': {k: (r['rc'] == 1) for k, r in (det or {}).items()}, 'detail': det}
    json.dump(meta, open(os.path.join(d, 'meta.json'), 'w'), indent=1)
    print('=== %s summary confirmed=%s detected=%s' % (mid, v.get('confirmed'), meta['detected_by']), flush=True)
