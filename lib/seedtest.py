#!/usr/bin/env python3
"""Tools for evaluating seeded breaking changes (kept under /verif/seeded/<id>/).

  seedtest.py verify <mutation.patch> <demo.patch> <test-filter>
      In a scratch worktree of /repo (under /tmp, removed afterwards): the suite must pass with the
      mutation, the demonstration must fail with it and pass without it.
  seedtest.py detect <mutation.patch> <PROP> [<PROP> ...] [--tier quick]
      Applies the patch to /repo, runs the checks, restores /repo (git checkout -- .), prints a summary.
"""
import json
import os
import re
import subprocess
import sys
import time

ROOT = os.path.dirname(os.path.dirname(os.path.abspath(__file__)))


def sh(cmd, cwd=None, timeout=3600):
    p = subprocess.run(cmd, cwd=cwd, shell=isinstance(cmd, str), stdout=subprocess.PIPE, stderr=subprocess.STDOUT, text=True, timeout=timeout)
    return p.returncode, p.stdout


def verify(mut, demo, flt):
    wt = '/tmp/wt-verify-%d' % os.getpid()
    sh(['git', '-C', '/repo', 'worktree', 'add', '--detach', wt, 'HEAD'])
    res = {}
    try:
        rc, out = sh(['git', 'apply', os.path.abspath(mut)], cwd=wt)
        res['mutation_applies'] = rc == 0
        rc, out = sh('cargo test --offline 2>&1 | tail -5', cwd=wt)
        m = re.search(r'test result: (\w+)\. (\d+) passed; (\d+) failed', out)
        res['suite_with_mutation'] = m.group(0) if m else out[-300:]
        res['suite_passes_with_mutation'] = bool(m and m.group(1) == 'ok' and int(m.group(3)) == 0)
        if demo.endswith('.patch'):
            rc, out = sh(['git', 'apply', os.path.abspath(demo)], cwd=wt)
            res['demo_applies'] = rc == 0
            rc, out = sh('cargo test --offline %s 2>&1 | tail -8' % flt, cwd=wt)
            m = re.search(r'test result: (\w+)\. (\d+) passed; (\d+) failed', out)
            res['demo_with_mutation'] = m.group(0) if m else out[-300:]
            res['demo_fails_with_mutation'] = bool(m and int(m.group(3)) > 0)
            sh(['git', 'apply', '-R', os.path.abspath(mut)], cwd=wt)
            rc, out = sh('cargo test --offline %s 2>&1 | tail -8' % flt, cwd=wt)
            m = re.search(r'test result: (\w+)\. (\d+) passed; (\d+) failed', out)
            res['demo_without_mutation'] = m.group(0) if m else out[-300:]
            res['demo_passes_without_mutation'] = bool(m and m.group(1) == 'ok' and int(m.group(2)) > 0)
        else:
            # a script taking the path of the engine binary's worktree as argument
            sh('cargo build --release --offline 2>&1 | tail -2', cwd=wt)
            arg = os.path.join(wt, 'target/release/rust_chess_engine') if (demo.endswith('.py') and os.environ.get('SEED_DEMO_ARG', 'engine') == 'engine') else wt
            runner = ['python3', os.path.abspath(demo), arg] if demo.endswith('.py') else ['bash', os.path.abspath(demo), arg]
            rc, out = sh(runner, cwd=wt, timeout=1500)
            res['demo_with_mutation'] = 'rc=%d %s' % (rc, out[-300:])
            res['demo_fails_with_mutation'] = rc != 0
            sh(['git', 'apply', '-R', os.path.abspath(mut)], cwd=wt)
            sh('cargo build --release --offline 2>&1 | tail -2', cwd=wt)
            rc, out = sh(runner, cwd=wt, timeout=1500)
            res['demo_without_mutation'] = 'rc=%d %s' % (rc, out[-300:])
            res['demo_passes_without_mutation'] = rc == 0
    finally:
        sh(['git', '-C', '/repo', 'worktree', 'remove', '--force', wt])
    res['confirmed'] = all(res.get(k) for k in ('mutation_applies', 'suite_passes_with_mutation', 'demo_fails_with_mutation', 'demo_passes_without_mutation'))
    print(json.dumps(res, indent=1))
    return res


def detect(mut, props, tier='quick'):
    rc, out = sh(['git', '-C', '/repo', 'status', '--porcelain'])
    if out.strip():
        print('refusing: /repo is not clean:\n' + out)
        return None
    rc, out = sh(['git', '-C', '/repo', 'apply', os.path.abspath(mut)])
    if rc != 0:
        print('patch does not apply: ' + out)
        return None
    res = {}
    # evidence files describe the real tree: keep them aside while a seeded change is applied
    saved = {}
    for p in props:
        ep = os.path.join(ROOT, 'evidence', p + '.json')
        saved[ep] = open(ep).read() if os.path.exists(ep) else None
    try:
        for p in props:
            t0 = time.time()
            rc, out = sh([os.path.join(ROOT, 'check'), p, '--tier', tier], cwd=ROOT, timeout=7200)
            viol = [l for l in out.split('\n') if l.startswith('VIOLATION')]
            what = [l.strip() for l in out.split('\n') if l.strip().startswith('what:')]
            res[p] = {'rc': rc, 'violations': len(viol), 'first': (what[0][:400] if what else ''), 'wall_s': round(time.time() - t0, 1),
                      'tail': '' if rc in (0, 1) else out[-600:]}
    finally:
        sh(['git', '-C', '/repo', 'checkout', '--', '.'])
        sh(['git', '-C', '/repo', 'clean', '-fdq', 'src'])
        for ep, txt in saved.items():
            if txt is not None:
                open(ep, 'w').write(txt)
        # replays produced by a seeded run are not findings about the real tree
        for f in os.listdir(os.path.join(ROOT, 'replays')) if os.path.isdir(os.path.join(ROOT, 'replays')) else []:
            os.remove(os.path.join(ROOT, 'replays', f))
    print(json.dumps(res, indent=1))
    return res


if __name__ == '__main__':
    if sys.argv[1] == 'verify':
        r = verify(sys.argv[2], sys.argv[3], sys.argv[4])
        sys.exit(0 if r['confirmed'] else 1)
    elif sys.argv[1] == 'detect':
        tier = 'quick'
        args = sys.argv[3:]
        if '--tier' in args:
            i = args.index('--tier')
            tier = args[i + 1]
            args = args[:i] + args[i + 2:]
        r = detect(sys.argv[2], args, tier)
        sys.exit(0 if r is not None else 2)
