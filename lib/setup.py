#!/usr/bin/env python3
"""MANIFEST.setup_cmd: offline build of the framework from files on disk."""
import os, subprocess, sys
ROOT = os.path.dirname(os.path.dirname(os.path.abspath(__file__)))
sys.path.insert(0, os.path.join(ROOT, 'lib'))
import vlib, gen_seeds
os.chdir(ROOT)
gen_seeds.main()
try:
    vlib.build_harness()
except vlib.ToolError as e:
    print('setup: %s' % e, file=sys.stderr)
    sys.exit(1)
# parse all specifications
bad = 0
for f in sorted(os.listdir(vlib.SPEC)):
    if f.endswith('.tla'):
        p = subprocess.run(['java', '-cp', vlib.TLA_CP, 'tla2sany.SANY', f], cwd=vlib.SPEC, stdout=subprocess.PIPE, stderr=subprocess.STDOUT, text=True)
        if p.returncode != 0 or 'Semantic errors' in p.stdout or 'Could not parse' in p.stdout or 'Fatal' in p.stdout:
            print('SANY failed on %s\n%s' % (f, p.stdout[-1500:]), file=sys.stderr)
            bad += 1
print('setup ok' if not bad else 'setup: %d specs failed to parse' % bad)
sys.exit(1 if bad else 0)
