"""Checks C08, C09, C10, C14, C15: Uci.tla (two-thread session protocol) model-checked for all
interleavings, and recorded sessions of the real engine validated by UciTrace.tla."""
import concurrent.futures as cf
import json
import os
import random
import re
import shutil
import subprocess
import time

import gen_seeds
from engine import Engine, write_batch, chars, parse_go
from vlib import *

UCI_MC = '''SPECIFICATION Spec
CONSTANTS
  MaxCmds = %(cmds)d
  MaxSearch = %(searches)d
  MaxIter = 2
  Vocabulary = %(vocab)s
  StartStoresTrue = %(StartStoresTrue)s
  GoRejectsUnfinished = %(GoRejectsUnfinished)s
  NoFallbackMove = %(NoFallbackMove)s
  BestBeforeClear = %(BestBeforeClear)s
  EofLoops = %(EofLoops)s
  ParserPanics = %(ParserPanics)s
  Disciplined = %(Disciplined)s
INVARIANTS TypeOK AtMostOneBest NoGoRefused NoPanic InputAlive OneSearchAtATime StopSticks BestImpliesCleared ReadyAnswered AllAnsweredAtRest SearchedCurrentPosition
PROPERTIES GoAnswered ReadyLive EofTerminates NeverWedged
CHECK_DEADLOCK FALSE
'''
LEGACY = ['StartStoresTrue', 'GoRejectsUnfinished', 'NoFallbackMove', 'BestBeforeClear', 'EofLoops', 'ParserPanics']
VOCAB_FULL = '{"go_inf", "go_lim", "stop", "position_ok", "position_bad", "isready", "junk", "quit"}'
VOCAB_RACE = '{"go_inf", "go_lim", "stop", "position_ok", "isready"}'

TRACE_CFG = '''SPECIFICATION TSpec
CONSTANTS
  Mode = "%s"
  MaxCmds <- TMaxCmds
  MaxSearch <- TMaxSearch
  MaxIter = 100000
  Vocabulary <- Commands
  StartStoresTrue = FALSE
  GoRejectsUnfinished = FALSE
  NoFallbackMove = FALSE
  BestBeforeClear = FALSE
  EofLoops = FALSE
  ParserPanics = FALSE
  Disciplined = %s
VIEW TView
CONSTRAINT Progress
POSTCONDITION Post
CHECK_DEADLOCK FALSE
'''


def mc_uci(prop, tier, cov):
    """All interleavings of the GUI, the input thread and the search thread on small constants.
    The repaired protocol must satisfy safety and liveness; every legacy switch must yield a
    counterexample (sensitivity of the model)."""
    base = {k: 'FALSE' for k in LEGACY}
    base['Disciplined'] = 'TRUE'
    if tier == 'quick':
        # the second configuration lets the GUI send go at any time: a refused go is then possible, everything else still holds
        cfgs = [dict(base, cmds=4, searches=2, vocab=VOCAB_FULL), dict(base, cmds=4, searches=3, vocab=VOCAB_RACE, Disciplined='FALSE')]
    else:
        cfgs = [dict(base, cmds=5, searches=2, vocab=VOCAB_FULL), dict(base, cmds=6, searches=3, vocab=VOCAB_RACE),
                dict(base, cmds=5, searches=3, vocab=VOCAB_RACE, Disciplined='FALSE')]
    cov['mc'] = {}
    for i, c in enumerate(cfgs):
        r = model_check('Uci.tla', UCI_MC % c, 'uci-mc-%s-%d-%d' % (prop, i, os.getpid()), timeout=3000)
        if not r['ok']:
            log(r['out'][-3000:])
            raise ToolError('Uci.tla (repaired protocol) violates its own properties: model bug')
        cov['states'] = cov.get('states', 0) + r['distinct']
        cov['transitions'] = cov.get('transitions', 0) + r['generated']
        cov['mc']['Uci cmds=%d searches=%d' % (c['cmds'], c['searches'])] = {'distinct_states': r['distinct'], 'generated': r['generated'],
                                                                              'properties': 'safety invariants + liveness GoAnswered/ReadyLive/EofTerminates under WF'}
    if prop == 'C10':
        prove_uci_inductive(cov)
    # legacy switches: each must be caught by the model
    def leg(sw):
        c = dict(base, cmds=3, searches=2, vocab=VOCAB_FULL)
        c[sw] = 'TRUE'
        return sw, model_check('Uci.tla', UCI_MC % c, 'uci-leg-%s-%s-%d' % (prop, sw, os.getpid()), workers=2, timeout=1200)
    with cf.ThreadPoolExecutor(max_workers=6) as ex:
        for sw, r in ex.map(leg, LEGACY):
            if r['ok']:
                raise ToolError('model sensitivity: legacy switch %s produced no counterexample' % sw)
            m = re.search(r'(Invariant|Temporal properties|property) ?(\w*) (is|were) violated', r['out'])
            cov['mc']['legacy ' + sw] = 'counterexample found: ' + (m.group(0) if m else 'violation')


def apalache(args, cwd, timeout=900):
    p = subprocess.run(['apalache-mc', 'check'] + args, cwd=cwd, stdout=subprocess.PIPE, stderr=subprocess.STDOUT, text=True, timeout=timeout)
    m = re.search(r'The outcome is: (\w+)', p.stdout)
    return (m.group(1) if m else 'Unknown'), p.stdout


def prove_uci_inductive(cov):
    """Unbounded safety of the repaired protocol: the inductive invariant of UciInd.tla discharged by Apalache
    (base case, inductive step, invariant => properties), plus the sensitivity runs: with the pinned code's
    store of true at search entry, or with bestmove printed before the flag is cleared, the step must fail."""
    d = fresh_dir('apalache-%d' % os.getpid())
    src = open(os.path.join(SPEC, 'UciInd.tla')).read()
    open(os.path.join(d, 'UciInd.tla'), 'w').write(src)
    leg1 = src.replace('MODULE UciInd', 'MODULE UciIndL1').replace(
        '(spc = "entry" /\\ spc\' = "work" /\\ UNCHANGED <<flag, answered>>)',
        '(spc = "entry" /\\ spc\' = "work" /\\ flag\' = TRUE /\\ UNCHANGED answered)')
    leg2 = src.replace('MODULE UciInd', 'MODULE UciIndL2').replace(
        '(spc = "post" /\\ spc\' = "cleared" /\\ flag\' = FALSE /\\ UNCHANGED answered)',
        '(spc = "post" /\\ spc\' = "cleared" /\\ UNCHANGED <<flag, answered>>)')
    if leg1 == src.replace('MODULE UciInd', 'MODULE UciIndL1') or leg2 == src.replace('MODULE UciInd', 'MODULE UciIndL2'):
        raise ToolError('UciInd.tla: legacy variants could not be derived (text changed)')
    open(os.path.join(d, 'UciIndL1.tla'), 'w').write(leg1)
    open(os.path.join(d, 'UciIndL2.tla'), 'w').write(leg2)
    runs = [('base case  Init => IndInv', ['--init=Init', '--inv=IndInv', '--length=0', 'UciInd.tla'], 'NoError'),
            ('inductive step  IndInv /\\ Next => IndInv\'', ['--init=IndInv', '--inv=IndInv', '--length=1', 'UciInd.tla'], 'NoError'),
            ('IndInv => Answered', ['--init=IndInv', '--inv=Answered', '--length=0', 'UciInd.tla'], 'NoError'),
            ('legacy: flag stored true at search entry (step must fail)', ['--init=IndInv', '--inv=IndInv', '--length=1', 'UciIndL1.tla'], 'Error'),
            ('legacy: flag not cleared before the answer (step must fail)', ['--init=IndInv', '--inv=IndInv', '--length=1', 'UciIndL2.tla'], 'Error')]
    with cf.ThreadPoolExecutor(max_workers=5) as ex:
        outs = list(ex.map(lambda r: apalache(r[1], d), runs))
    res = {}
    for (name, _, want), (got, out) in zip(runs, outs):
        if got != want:
            log(out[-2000:])
            raise ToolError('Apalache: %s: expected %s, got %s' % (name, want, got))
        res[name] = got
    cov.setdefault('mc', {})['UciInd (Apalache 0.58, unbounded)'] = res
    shutil.rmtree(d, ignore_errors=True)


# ---------------------------------------------------------------------------------------------
# session drivers (each returns the event list of one engine process)

_LEGAL = None


def legal_positions():
    """seed positions (as 6-field FENs) that have at least one legal move (the properties' precondition)"""
    global _LEGAL
    if _LEGAL is not None:
        return _LEGAL
    fens = gen_seeds.read('corner.fen') + gen_seeds.read('perft.fen') + gen_seeds.read('bench.fen')
    out = []
    for f in fens:
        p = f.split()
        if len(p) == 4:
            f = f + ' 0 1'
        out.append(f)
    os.makedirs(WORK, exist_ok=True)
    tmp = os.path.join(WORK, 'fens-%d.txt' % os.getpid())
    with open(tmp, 'w') as fo:
        fo.write('\n'.join(out) + '\n')
    p = run_harness(['has-moves', '--in', tmp])
    os.remove(tmp)
    _LEGAL = [l for l in p.stdout.split('\n') if l.strip()]
    return _LEGAL


NO_MOVES = {'7k/5Q2/6K1/8/8/8/8/8 b - - 0 1', '7k/6Q1/6K1/8/8/8/8/8 b - - 0 1'}


def limit_combo(rng):
    """one element of the product of limits; returns (go arguments, upper bound in ms for the controller)"""
    parts = []
    kinds = rng.choice([['depth'], ['nodes'], ['movetime'], ['clock'], ['depth', 'nodes'], ['depth', 'movetime'],
                        ['nodes', 'clock'], ['movetime', 'clock'], ['depth', 'clock'], ['nodes', 'movetime'], ['clock', 'depth', 'nodes']])
    timed = False
    # next to a time limit, a depth or node limit far out of reach half of the time: then the time limit must bind
    far = ('movetime' in kinds or 'clock' in kinds) and rng.random() < 0.5
    for k in kinds:
        if k == 'depth':
            parts += ['depth', str(rng.choice([60, 100, 255]) if far else rng.choice([1, 1, 2, 2, 3, 4]))]
        elif k == 'nodes':
            parts += ['nodes', str(rng.choice([4000000000, 10 ** 12, 50000000]) if far else rng.choice([1, 2, 5, 50, 500, 5000]))]
        elif k == 'movetime':
            parts += ['movetime', str(rng.choice([0, 1, 5, 50, 200]))]
            timed = True
        else:
            timed = True
            sub = rng.choice(['both', 'both', 'w', 'b', 'inc'])
            t = rng.choice([0, 1, 20, 1000])
            inc = rng.choice([0, 1, 100])
            if sub in ('both', 'w'):
                parts += ['wtime', str(t)]
            if sub in ('both', 'b'):
                parts += ['btime', str(rng.choice([0, 1, 20, 1000]))]
            if sub in ('both', 'inc') or rng.random() < 0.3:
                parts += ['winc', str(inc), 'binc', str(rng.choice([0, 1, 100]))]
    return ' '.join(parts), timed


ZERO_BUDGETS = ['nodes 1', 'movetime 0', 'wtime 0 btime 0', 'nodes 2 depth 3', 'wtime 1 btime 1 winc 0 binc 0']


def session_c09(rng, fens, directed=None):
    e = Engine()
    try:
        n = rng.randint(1, 5) if directed is None else len(ZERO_BUDGETS)
        for i in range(n):
            fen = rng.choice(fens) if directed is None else directed
            e.send('position fen ' + fen)
            args, timed = limit_combo(rng)
            if directed is not None:
                # the smallest budgets on every seed position (in check, pinned pieces, one legal move, ...)
                args, timed = ZERO_BUDGETS[i], True
            elif rng.random() < 0.12:
                # the opponent has a lot of time, the mover almost none: the answer must come at once
                big, small = rng.choice([40000, 60000]), rng.choice([0, 10, 200])
                black = fen.split()[1] == 'b'
                args = 'wtime %d btime %d' % ((big, small) if black else (small, big))
                if rng.random() < 0.5:
                    # ... and a large increment that is the opponent's, not the mover's
                    oinc, minc = rng.choice([6000, 9000]), rng.choice([0, 0, 20])
                    args += ' winc %d binc %d' % ((oinc, minc) if black else (minc, oinc))
                timed = True
            e.send('go ' + args)
            # controller deadline: generous for pure depth/node limits, allowed+allowance (+margin) otherwise
            lim = parse_go(args.split())[0]
            z = lambda v: max(v, 0)
            tl = max(z(lim['movetime']), z(lim['wtime']) + z(lim['winc']), z(lim['btime']) + z(lim['binc']))
            bm = e.wait_for('bestmove', min(9000, 2700 + tl) if timed else 30000)
            if bm is None:
                e.log({'ev': 'deadline', 'what': 'bestmove', 't': e.now()})
                return e.events
            e.send('isready')
            if e.wait_for('readyok', 2500) is None:
                e.log({'ev': 'deadline', 'what': 'readyok', 't': e.now()})
                return e.events
        e.send('quit')
        e.wait_exit(2500)
        return e.events
    finally:
        e.kill()


LINES2 = {}


def load_lines2(fens, seed):
    tmp = os.path.join(WORK, 'fens-l2-%d.txt' % os.getpid())
    with open(tmp, 'w') as fo:
        fo.write('\n'.join(fens) + '\n')
    p = run_harness(['lines2', '--in', tmp, '--k', 5, '--seed', seed])
    os.remove(tmp)
    for l in p.stdout.split('\n'):
        if '|' in l:
            f, rest = l.split('|', 1)
            LINES2[f] = [x for x in rest.split(';') if x]


def session_continuation(rng, fens):
    """search a position, then step along the reported principal variation and ask for a move with the smallest
    budgets at each step: the cache then holds entries for exactly these positions"""
    e = Engine()
    try:
        fen = rng.choice(fens)
        e.send('position fen ' + fen)
        e.send('go depth %d' % rng.choice([2, 3, 3]))
        if e.wait_for('bestmove', 60000) is None:
            e.log({'ev': 'deadline', 'what': 'bestmove', 't': e.now()})
            return e.events
        pvs = [x['pv'] for x in e.events if x.get('ev') == 'recv' and x.get('kind') == 'info' and x.get('pv')]
        pv = [''.join(t) for t in (pvs[-1] if pvs else [])]
        conts = [pv[:k] for k in range(1, len(pv) + 1)]
        # also two-ply lines off the principal variation (replies that give check or capture): searched, hence cached
        conts += [c.split() for c in LINES2.get(fen, [])]
        for c in conts:
            e.send('position fen %s moves %s' % (fen, ' '.join(c)))
            e.send('go ' + rng.choice(ZERO_BUDGETS))
            if e.wait_for('bestmove', 5000) is None:
                e.log({'ev': 'deadline', 'what': 'bestmove', 't': e.now()})
                return e.events
        e.send('isready')
        if e.wait_for('readyok', 2500) is None:
            e.log({'ev': 'deadline', 'what': 'readyok', 't': e.now()})
            return e.events
        e.send('quit')
        e.wait_exit(2500)
        return e.events
    finally:
        e.kill()


def session_c10(rng, fens):
    """free-running stress: go/stop/go with no sleeps, stop at random moments, commands during search"""
    e = Engine()
    try:
        if rng.random() < 0.5:
            e.send('position fen ' + rng.choice(fens))
        for _ in range(rng.randint(2, 5)):
            pat = rng.choice(['gostop', 'gostop', 'regoo', 'midstop', 'during', 'stoplate'])
            if pat == 'gostop':
                # go infinite immediately followed by stop, in one write
                e.send_many(['go infinite', 'stop'])
            elif pat == 'regoo':
                e.send('go depth %d' % rng.choice([1, 2]))
                if e.wait_for('bestmove', 30000) is None:
                    e.log({'ev': 'deadline', 'what': 'bestmove', 't': e.now()})
                    return e.events
                # a new go right after the bestmove
                e.send_many(['go infinite', 'stop'] if rng.random() < 0.5 else ['go depth 1'])
                if e.events[-1]['cls'] != 'stop':
                    pass
            elif pat == 'midstop':
                e.send('go infinite')
                time.sleep(rng.choice([0, 0.001, 0.005, 0.02, 0.1]))
                e.send('stop')
            elif pat == 'during':
                e.send('go infinite')
                e.send('isready')
                if e.wait_for('readyok', 2500) is None:
                    e.log({'ev': 'deadline', 'what': 'readyok', 't': e.now()})
                    return e.events
                e.send(rng.choice(['position fen ' + rng.choice(fens), 'ucinewgame', 'position startpos']))
                e.send('stop')
            else:
                e.send('go depth 1')
                if e.wait_for('bestmove', 30000) is None:
                    e.log({'ev': 'deadline', 'what': 'bestmove', 't': e.now()})
                    return e.events
                e.send('stop')      # stop after the search ended: must be harmless
                e.send('isready')
                if e.wait_for('readyok', 2500) is None:
                    e.log({'ev': 'deadline', 'what': 'readyok', 't': e.now()})
                    return e.events
                continue
            if e.wait_for('bestmove', 4000) is None:
                e.log({'ev': 'deadline', 'what': 'bestmove', 't': e.now()})
                return e.events
        e.send('isready')
        if e.wait_for('readyok', 2500) is None:
            e.log({'ev': 'deadline', 'what': 'readyok', 't': e.now()})
            return e.events
        e.send('quit')
        e.wait_exit(2500)
        return e.events
    finally:
        e.kill()


def session_hammer(rng, fens):
    """a stop at a random moment of a running search, many times over"""
    e = Engine()
    try:
        # dense positions are used only where a stop ends the search (a depth limit alone may take very long there)
        dense = gen_seeds.read('dense.fen')
        if dense and rng.random() < 0.2:
            e.send('position fen ' + rng.choice(dense))      # long capture sequences: the stop must be seen there too
        elif rng.random() < 0.7:
            e.send('position fen ' + rng.choice(fens))
        for _ in range(12):
            e.send('go infinite')
            time.sleep(rng.uniform(0.0003, 0.004))
            e.send('stop')
            if e.wait_for('bestmove', 2500) is None:
                e.log({'ev': 'deadline', 'what': 'bestmove', 't': e.now()})
                return e.events
        e.send('quit')
        e.wait_exit(2500)
        return e.events
    finally:
        e.kill()


def session_undisciplined(rng, fens):
    """a go sent while a search is genuinely running (the engine may refuse it); stop, isready and the
    searches it did accept must keep working"""
    e = Engine()
    try:
        if rng.random() < 0.5:
            e.send('position fen ' + rng.choice(fens))
        for _ in range(rng.randint(1, 3)):
            e.send('go infinite')
            if rng.random() < 0.7:
                e.wait_for('info', 300)
            for _ in range(rng.randint(1, 2)):
                e.send(rng.choice(['go depth 1', 'go infinite', 'go nodes 10', 'go movetime 5']))
                if rng.random() < 0.5:
                    e.send('isready')
                    if e.wait_for('readyok', 2500) is None:
                        e.log({'ev': 'deadline', 'what': 'readyok', 't': e.now()})
                        return e.events
            e.send('stop')
            # every search the engine accepted answers; wait for the first answer, then let the rest drain
            if e.wait_for('bestmove', 2500) is None:
                e.log({'ev': 'deadline', 'what': 'bestmove', 't': e.now()})
                return e.events
            e.send('stop')
            e.drain(150)
        e.send('isready')
        if e.wait_for('readyok', 2500) is None:
            e.log({'ev': 'deadline', 'what': 'readyok', 't': e.now()})
            return e.events
        e.send('quit')
        e.wait_exit(2500)
        return e.events
    finally:
        e.kill()


def session_c14(rng, fens):
    e = Engine()
    try:
        for _ in range(rng.randint(1, 3)):
            fen = rng.choice(fens)
            e.send('position fen ' + fen)
            r = rng.random()
            if r < 0.6:
                e.send('go depth %d' % rng.choice([1, 2, 2, 3, 3, 4, 5]))
            elif r < 0.8:
                e.send('go nodes %d' % rng.choice([50, 500, 5000, 20000]))
            else:
                e.send('go movetime %d' % rng.choice([5, 50, 200]))
            if e.wait_for('bestmove', 120000) is None:
                e.log({'ev': 'deadline', 'what': 'bestmove', 't': e.now()})
                return e.events
        e.send('quit')
        e.wait_exit(2500)
        return e.events
    finally:
        e.kill()


# positions whose searches finish at once at any depth: the half-move clock has reached 100, so every child
# of the root is an immediate draw (legal positions with a legal move; `go depth 255` ends in milliseconds)
INSTANT = ['7k/8/8/8/8/8/8/K5R1 w - - 100 80', '4k3/8/8/8/8/8/8/R3K2R w KQ - 100 90', 'r3k2r/8/8/8/8/8/8/4K3 b kq - 120 99',
           '8/5k2/8/8/8/2N5/8/K7 w - - 100 70', 'k7/8/8/2q5/8/8/8/7K b - - 101 70']


def session_deep_limit(rng, fens):
    """depth limits at the top of the range (the depth counter is 8 bits wide), where every iteration completes"""
    e = Engine()
    try:
        # mate-in-one positions: once the mate is found alpha is at its maximum and every deeper iteration is immediate
        mates = ['6k1/5ppp/8/8/8/8/5PPP/R5K1 w - - 0 1', 'r5k1/5ppp/8/8/8/8/5PPP/6K1 b - - 0 1', '7k/8/5K2/6Q1/8/8/8/8 w - - 0 1',
                 'k7/8/1K6/8/8/8/8/7R w - - 0 1', 'r1bqkb1r/pppp1ppp/2n2n2/4p2Q/2B1P3/8/PPPP1PPP/RNB1K1NR w KQkq - 4 4']
        for n in [255] + rng.sample([254, 253, 200, 129, 128, 127, 100], 2):
            fen = rng.choice(INSTANT + INSTANT + mates)
            e.send('position fen ' + (fen if len(fen.split()) == 6 else fen + ' 0 1'))
            e.send('go depth %d' % n)
            if e.wait_for('bestmove', 120000) is None:
                e.log({'ev': 'deadline', 'what': 'bestmove', 't': e.now()})
                return e.events
        e.send('quit')
        e.wait_exit(2500)
        return e.events
    finally:
        e.kill()


def session_ready_hammer(rng, fens):
    """isready lines answered by the input thread while the search thread prints its info lines at full speed:
    every line must still arrive whole"""
    e = Engine()
    try:
        for _ in range(3):
            e.send('position fen ' + rng.choice(INSTANT))
            n = rng.choice([150, 200, 250])
            e.send_many(['isready'] * rng.choice([20, 100, 300]) + ['go depth %d' % n] + ['isready'] * 900)
            if e.wait_for('bestmove', 60000) is None:
                e.log({'ev': 'deadline', 'what': 'bestmove', 't': e.now()})
                return e.events
            e.drain(150)
        e.send('quit')
        e.wait_exit(2500)
        return e.events
    finally:
        e.kill()


def session_selfplay(rng, fens):
    """the engine plays against itself in one process (cache carried over from move to move), as a GUI would drive it"""
    e = Engine()
    try:
        fen = rng.choice(fens)
        moves = []
        depth = rng.choice([3, 4, 4])
        vary = rng.random() < 0.6          # the depth changes from move to move: a principal variation may then be
                                           # pieced together from cache entries written by searches of other depths
        for _ in range(rng.choice([24, 32, 40])):
            e.send('position fen %s%s' % (fen, (' moves ' + ' '.join(moves)) if moves else ''))
            e.send('go depth %d' % (rng.choice([2, 3, 4, 5]) if vary else depth))
            bm = e.wait_for('bestmove', 120000)
            if bm is None:
                e.log({'ev': 'deadline', 'what': 'bestmove', 't': e.now()})
                return e.events
            mv = ''.join(bm.get('mv', []))
            if mv in ('', '0000'):
                break                       # the game is over
            moves.append(mv)
        e.send('quit')
        e.wait_exit(2500)
        return e.events
    finally:
        e.kill()


VOCAB = ['uci', 'isready', 'ucinewgame', 'setoption', 'position', 'go', 'stop', 'quit', 'name', 'value', 'startpos', 'fen', 'moves',
         'depth', 'nodes', 'movetime', 'wtime', 'btime', 'winc', 'binc', 'infinite', 'searchmoves', 'ponder', 'movestogo', 'mate',
         'Hash', 'Threads', 'e2e4', 'e7e5', 'a7a8q', 'e1g1', 'zzzz', '0', '1', '-1', '99999999999999999999', 'abc', '3.5', '']
JUNK_NUM = ['-1', 'abc', '99999999999999999999999', '3.5', '', '0x10', '256', '1e3']


def junk_line(rng, fens):
    r = rng.random()
    if r < 0.12:
        return rng.choice(['uci', 'isready', 'ucinewgame', 'stop', '   ', '', 'xyzzy', 'go away', 'position', 'setoption', 'quit now please'.replace('quit', 'quitt')])
    if r < 0.35:
        # go with arguments dropped / duplicated / reordered / junk
        kws = rng.sample(['depth', 'nodes', 'movetime', 'wtime', 'btime', 'winc', 'binc', 'searchmoves', 'ponder', 'movestogo', 'mate', 'infinite'], rng.randint(1, 4))
        toks = ['go']
        for k in kws:
            toks.append(k)
            if k in ('infinite', 'ponder'):
                continue
            c = rng.random()
            if c < 0.35:
                toks.append(str(rng.choice([1, 2, 3, 10, 100])))
            elif c < 0.65:
                toks.append(rng.choice(JUNK_NUM))
            # else: argument dropped (possibly the keyword is last on the line)
        rng.random() < 0.2 and rng.shuffle(toks[1:])
        return ' '.join(t for t in toks)
    if r < 0.55:
        # setoption variants
        forms = ['setoption name Hash value 16', 'setoption name value x', 'setoption value 3 name Hash', 'setoption name', 'setoption',
                 'setoption name Move Overhead value', 'setoption name Threads value 1 value 2', 'setoption value', 'setoption name name name',
                 'setoption Hash 3', 'setoption name Hash value', 'setoption value name', 'setoption name Clear Hash']
        return rng.choice(forms)
    if r < 0.9:
        # position variants (FEN arguments are valid FENs; may be cut short)
        fen = rng.choice(fens)
        c = rng.random()
        if c < 0.25:
            return 'position startpos moves ' + ' '.join(rng.choice(['e2e4', 'e7e5', 'zzzz', 'e2e5', 'a7a8q', 'g1f3', 'e2e4q', '']) for _ in range(rng.randint(0, 4)))
        if c < 0.5:
            return 'position fen ' + fen + (' moves ' + rng.choice(['e2e4', 'zzzz', 'a1a1', '0000']) if rng.random() < 0.5 else '')
        if c < 0.75:
            ftoks = fen.split()
            return 'position fen ' + ' '.join(ftoks[:rng.randint(0, 5)]) + (' moves e2e4' if rng.random() < 0.5 else '')
        return rng.choice(['position', 'position fen', 'position startpos moves', 'position moves e2e4', 'position startpos fen', 'position startpos startpos',
                           'position fen moves', 'position fen ' + fen + ' ' + fen])
    return ' '.join(rng.choice(VOCAB) for _ in range(rng.randint(1, 6)))


GO_KW = ['searchmoves', 'ponder', 'wtime', 'btime', 'winc', 'binc', 'movestogo', 'depth', 'nodes', 'mate', 'movetime', 'infinite']


def systematic_lines():
    """every go keyword as the last token, with a junk value, after another argument; setoption and position shapes"""
    out = []
    for kw in GO_KW:
        out += ['go ' + kw, 'go depth 1 ' + kw, 'go wtime 1000 btime 1000 ' + kw, 'go %s %s' % (kw, kw)]
        out += ['go %s %s' % (kw, j) for j in JUNK_NUM if j]
    out += ['setoption name Hash value 16', 'setoption name value x', 'setoption value 3 name Hash', 'setoption name', 'setoption',
            'setoption name Move Overhead value', 'setoption value', 'setoption name name name', 'setoption value name', 'setoption name Clear Hash',
            'position', 'position fen', 'position startpos moves', 'position moves e2e4', 'position fen moves', 'uci', 'ucinewgame', 'stop', '', '   ']
    # reader edge cases: tabs, runs of blanks, a very long line, non-ASCII, a NUL-free control character
    out += ['\tisready\t', '   go    depth   1   ', 'x' * 20000, 'go ' + 'depth 1 ' * 2000, 'position startpos moves ' + 'e2e4 ' * 3000,
            'isr\u00e9ady \u265e', 'stop\x0b', 'setoption name ' + 'A' * 5000 + ' value 1', 'go depth 0', 'go depth 255', 'go depth 256',
            'go nodes 0', 'go nodes 18446744073709551615', 'go nodes 18446744073709551616', 'go movetime 340282366920938463463374607431768211455',
            'go wtime 18446744073709551615 btime 18446744073709551615 winc 18446744073709551615 binc 18446744073709551615']
    # multi-byte characters at every byte offset of the first word (and a later one)
    for ch in ['\u00e9', '\u265e', '\U0001F600']:
        for k in range(0, 36, 1 if ch == '\u00e9' else 3):
            out.append('a' * k + ch + 'a' * 4)
        out.append('go ' + 'a' * 14 + ch)
        out.append(ch * 12)
    # move tokens with a multi-byte character at every byte offset (tokens of 3 to 8 bytes; a move is 4 or 5 bytes long)
    base = 'e2e4qq'
    for ch in ['\u00e9', '\u20ac', '\u265e', '\U0001F600']:
        for k in range(0, 6):
            for keep in range(0, 4):
                tok = base[:k] + ch + base[k:k + keep]
                if 3 <= len(tok.encode()) <= 8:
                    out.append('position startpos moves ' + tok)
        out.append('position startpos moves e2e4 e7e' + ch)
        out.append('go searchmoves e2e' + ch)
    return out


FEN_ROW = re.compile(r'^[pnbrqkPNBRQK1-8]{1,8}$')


def valid_fen_fields(f):
    """a FEN of four to six fields as the engine reads it (placement, side, castling, en passant, counters)"""
    if not 4 <= len(f) <= 6:
        return False
    rows = f[0].split('/')
    if len(rows) != 8 or not all(FEN_ROW.match(r) and sum(int(c) if c.isdigit() else 1 for c in r) == 8 for r in rows):
        return False
    if f[0].count('K') != 1 or f[0].count('k') != 1:
        return False
    if f[1] not in ('w', 'b') or not (f[2] == '-' or (0 < len(f[2]) <= 4 and set(f[2]) <= set('KQkq') and len(set(f[2])) == len(f[2]))):
        return False
    if not (f[3] == '-' or re.match(r'^[a-h][36]$', f[3])):
        return False
    return all(t.isdigit() and len(t) <= 4 for t in f[4:])


def in_scope(line):
    """C15 assumes FEN arguments to be valid FEN.  The engine takes the four to six tokens after `position fen` (up
    to `moves`) as the FEN; fewer than four is a line it must reject (in scope).  A line whose would-be FEN is not
    one is cut down to its first three tokens after `fen` - still a malformed line, but without a FEN argument."""
    t = line.split()
    if len(t) >= 2 and t[0] == 'position' and t[1] == 'fen':
        rest = t[2:]
        n = rest.index('moves') if 'moves' in rest[:6] else min(len(rest), 6)
        if n >= 4 and not valid_fen_fields(rest[:n]):
            return ' '.join(t[:2] + rest[:3])
    return line


def session_c15(rng, fens, lines=None):
    e = Engine()
    try:
        n = rng.randint(4, 18) if lines is None else len(lines)
        end_by_close = rng.random() < 0.5
        close_at = rng.randint(0, n) if (end_by_close and lines is None) else None
        # sometimes the lines arrive while a search is running: the engine must stay responsive throughout
        searching = lines is None and rng.random() < 0.25
        if searching:
            e.send('go infinite')
            close_at = None
        for i in range(n):
            if close_at is not None and i == close_at:
                break
            line = in_scope(junk_line(rng, fens) if lines is None else lines[i])
            toks = line.split()
            if toks and toks[0] == 'quit':
                continue
            if searching and toks and toks[0] in ('go', 'stop'):
                continue          # keep the one search running (a further go would be outside the GUI discipline)
            if toks and toks[0] == 'go':
                # the GUI cannot tell whether the engine takes this go; keep the discipline with a stop
                e.send(line, cls='go_maybe')
                e.send('stop')
                e.wait_for('bestmove', 250)       # either an answer or nothing (refused line); a late answer is still matched
            elif toks and toks[0] == 'position':
                e.send(line, cls='position' if Engine.classify(toks) == 'position' else 'junk')
            else:
                e.send(line)
            e.send('isready')
            if e.wait_for('readyok', 2500) is None:
                e.log({'ev': 'deadline', 'what': 'readyok', 't': e.now()})
                e.drain(50)
                return e.events
        if searching:
            e.send('stop')
            if e.wait_for('bestmove', 2500) is None:
                e.log({'ev': 'deadline', 'what': 'bestmove', 't': e.now()})
                return e.events
        if end_by_close:
            if rng.random() < 0.3:
                # end of input while a search is running: the engine must still terminate
                e.send('go infinite')
                e.drain(rng.choice([0, 5, 30]))
            e.close_stdin()
        else:
            if rng.random() < 0.3:
                # quit while a search is running (unlimited, or limited far beyond the session): the engine must still end
                e.send(rng.choice(['go infinite', 'go infinite', 'go movetime 600000', 'go depth 200', 'go wtime 36000000 btime 36000000']))
                e.drain(rng.choice([0, 5, 30]))
            e.send('quit')
        e.wait_exit(2500)
        e.drain(20)
        return e.events
    finally:
        e.kill()


def random_game_moves(rng, n):
    """A legal game as UCI move list, produced by asking the engine itself? No: by the harness replay of
    TLC-independent random walk: we use python-free approach: the moves come from recorded chess traces."""
    raise NotImplementedError


DRIVERS = {'C09': session_c09, 'C10': session_c10, 'C14': session_c14, 'C15': session_c15}
SESSIONS = {'C09': (90, 7000), 'C10': (100, 5000), 'C14': (70, 2500), 'C15': (220, 20000)}
PAR = {'C09': 4, 'C10': 4, 'C14': 4, 'C15': 8}


def post_re():
    return re.compile(r'<<\s*"MATCHED",\s*(\d+),\s*(\d+)\s*>>', re.S)


def validate_uci(path, mode):
    name = 'ut-%s-%s-%d' % (mode, os.path.basename(path).replace('.ndjson', ''), os.getpid())
    t0 = time.time()
    try:
        rc, out = run_tlc('UciTrace.tla', TRACE_CFG % (mode, 'FALSE' if mode == 'C10U' else 'TRUE'), name, workers=1, timeout=3000,
                          env_extra={'TRACE': os.path.abspath(path)}, jvm=TRACE_JVM)
    except ToolError as ex:
        return {'file': path, 'status': 'error', 'detail': str(ex)}
    gen, dist = mc_stats(out)
    m = post_re().search(out)
    if not m:
        return {'file': path, 'status': 'error', 'detail': out[-3000:]}
    matched, n = int(m.group(1)), int(m.group(2))
    res = {'file': path, 'states': dist, 'generated': gen, 'wall': time.time() - t0}
    if matched == n + 1:
        res['status'] = 'accept'
    else:
        res.update(status='reject', line=matched)
    return res


def session_of(events_path, line):
    """events of the session containing 1-based line `line`, up to that line"""
    evs = read_events(events_path, line)
    start = 0
    for i, e in enumerate(evs):
        if e.get('ev') == 'session':
            start = i
    return evs[start:]


def describe(evs):
    out = []
    for e in evs:
        ev = e.get('ev')
        if ev == 'send':
            out.append('> ' + e['line'])
        elif ev == 'recv':
            out.append('< ' + (e.get('line') or e['kind']))
        elif ev == 'stderr':
            out.append('! ' + e['kind'] + ': ' + e.get('line', '')[:100])
        elif ev in ('exit', 'deadline', 'close'):
            out.append('# %s %s' % (ev, e.get('what', e.get('code', ''))))
        elif ev == 'cmd':
            out.append('> ' + e['line'] + (' [ok]' if e.get('ok') else ' [refused]'))
    return out


def run_process_level(prop, tier, seed, verdict, cov):
    fens = [f for f in legal_positions() if f not in NO_MOVES]
    nsess = SESSIONS[prop][0 if tier == 'quick' else 1]
    rng = random.Random(seed)
    seeds = [rng.randrange(1 << 30) for _ in range(nsess)]
    d = fresh_dir('uci-%s-%d' % (prop, os.getpid()))
    driver = DRIVERS[prop]
    t0 = time.time()

    def one(s):
        return driver(random.Random(s), fens)
    jobs = [(one, s) for s in seeds]
    if prop == 'C09':
        dirs = fens if tier == 'thorough' else random.Random(seed).sample(fens, min(len(fens), 60))
        jobs += [((lambda f: session_c09(random.Random(seed), fens, directed=f)), f) for f in dirs]
    if prop == 'C09':
        load_lines2(fens, seed)
        nc = 60 if tier == 'quick' else 3000
        jobs += [((lambda s: session_continuation(random.Random(s), fens)), rng.randrange(1 << 30)) for _ in range(nc)]
    if prop == 'C14':
        ng = 6 if tier == 'quick' else 150
        jobs += [((lambda s: session_selfplay(random.Random(s), fens)), rng.randrange(1 << 30)) for _ in range(ng)]
        nd = 3 if tier == 'quick' else 60
        jobs += [((lambda s: session_deep_limit(random.Random(s), fens)), rng.randrange(1 << 30)) for _ in range(nd)]
        jobs += [((lambda s: session_ready_hammer(random.Random(s), fens)), rng.randrange(1 << 30)) for _ in range(nd)]
    if prop == 'C15':
        sysl = systematic_lines()
        jobs += [((lambda ls: session_c15(random.Random(seed), fens, lines=ls)), sysl[i:i + 12]) for i in range(0, len(sysl), 12)]
    if prop == 'C10':
        nh = 150 if tier == 'quick' else 3000
        jobs += [((lambda s: session_hammer(random.Random(s), fens)), rng.randrange(1 << 30)) for _ in range(nh)]
    with cf.ThreadPoolExecutor(max_workers=PAR[prop]) as ex:
        sessions = list(ex.map(lambda j: j[0](j[1]), jobs))
    nsess = len(sessions)
    log('[%s] %d engine sessions recorded in %.1fs' % (prop, nsess, time.time() - t0))
    per = 10 if prop != 'C15' else 25
    files = []
    # long sessions (thousands of lines) get a batch of their own so that no TLC run is much longer than the others
    def cost(x):          # lines, plus the move tokens TLC replays one by one for every position line
        return len(x) + sum(len(e.get('moves', [])) for e in x if e.get('ev') == 'send' and e.get('cls') == 'position')
    light = [x for x in sessions if cost(x) <= 1500]
    heavy = [x for x in sessions if cost(x) > 1500]
    for i in range(0, len(light), per):
        p = os.path.join(d, 'uci-%04d.ndjson' % (i // per))
        write_batch(p, light[i:i + per])
        files.append(p)
    for i, x in enumerate(heavy):
        p = os.path.join(d, 'uci-h%03d.ndjson' % i)
        write_batch(p, [x])
        files.append(p)
    with cf.ThreadPoolExecutor(max_workers=max(1, NCPU - 2)) as ex:
        results = list(ex.map(lambda f: validate_uci(f, prop), files))
    sigs = set()
    for r in results:
        if r['status'] == 'error':
            log(r.get('detail', '')[-3000:])
            raise ToolError('UciTrace failed to run on %s' % r['file'])
        cov['states'] = cov.get('states', 0) + r['states']
        cov['transitions'] = cov.get('transitions', 0) + r['generated']
        if r['status'] == 'accept':
            cov['traces_validated_against_impl'] = cov.get('traces_validated_against_impl', 0) + 1
        else:
            evs = session_of(r['file'], r['line'])
            bad = evs[-1] if evs else {}
            desc = describe(evs)
            sig = {'kind': 'session-rejected', 'mode': prop, 'unmatched': (desc[-1] if desc else ''),
                   'sends': [x[2:] for x in desc if x.startswith('> ')]}
            key = json.dumps(sig, sort_keys=True)
            if key in sigs:
                continue
            sigs.add(key)
            verdict.report(sig, {'how': 'recorded engine session rejected by UciTrace.tla: no behaviour of Uci.tla explains the next line',
                                 'unmatched_event': bad, 'session': desc}, trace_src=r['file'], cut_line=r['line'])
    if prop == 'C10':
        # a go sent into a running search is outside the GUI discipline; the engine may refuse it, but stop,
        # isready and the searches it accepted must keep working (Uci.tla with Disciplined = FALSE)
        nu = 40 if tier == 'quick' else 1500
        with cf.ThreadPoolExecutor(max_workers=PAR[prop]) as ex:
            usess = list(ex.map(lambda s: session_undisciplined(random.Random(s), fens), [rng.randrange(1 << 30) for _ in range(nu)]))
        ufiles = []
        for i in range(0, len(usess), per):
            p = os.path.join(d, 'uciU-%04d.ndjson' % (i // per))
            write_batch(p, usess[i:i + per])
            ufiles.append(p)
        with cf.ThreadPoolExecutor(max_workers=max(1, NCPU - 2)) as ex:
            uresults = list(ex.map(lambda f: validate_uci(f, 'C10U'), ufiles))
        for r in uresults:
            if r['status'] == 'error':
                log(r.get('detail', '')[-3000:])
                raise ToolError('UciTrace (C10U) failed to run on %s' % r['file'])
            cov['states'] = cov.get('states', 0) + r['states']
            cov['transitions'] = cov.get('transitions', 0) + r['generated']
            if r['status'] == 'accept':
                cov['traces_validated_against_impl'] = cov.get('traces_validated_against_impl', 0) + 1
            else:
                evs = session_of(r['file'], r['line'])
                desc = describe(evs)
                sig = {'kind': 'session-rejected', 'mode': 'C10U', 'unmatched': (desc[-1] if desc else ''),
                       'sends': [x[2:] for x in desc if x.startswith('> ')]}
                key = json.dumps(sig, sort_keys=True)
                if key in sigs:
                    continue
                sigs.add(key)
                verdict.report(sig, {'how': 'session with a go sent into a running search: rejected by UciTrace.tla (Disciplined = FALSE)',
                                     'session': desc}, trace_src=r['file'], cut_line=r['line'])
        cov['undisciplined_sessions'] = len(usess)
        sessions = sessions + usess
    # coverage numbers
    nev = sum(len(s) for s in sessions)
    distinct = set()
    for s in sessions:
        for e in s:
            if e.get('ev') == 'send':
                distinct.add(e['line'])
    cov['evaluations'] = nev
    cov['sessions'] = nsess
    cov['distinct_nontrivial'] = len(distinct)
    cov['samples'] = [describe(sessions[0])[:14]]
    return sessions, d


RULES = {
    'C08': 'in-process sessions on the real uci_loop: legal games as move lists (growing prefixes and one-shot), single-token corruptions, interleaved with ucinewgame/isready/other position commands; distinct = distinct command lines',
    'C09': 'engine sessions: position x limit combination (depth/nodes/movetime/clock/increment mixes incl. 0 and 1), 1-5 consecutive go per session each followed by isready; distinct = distinct lines sent',
    'C10': 'free-running stress sessions (go infinite + stop in one write, go right after bestmove, stop at random delays, commands during a search) plus forced schedules generated by TLC; distinct = distinct lines / schedules',
    'C14': 'go depth N (N=1..5) and node/time-limited searches over the seed positions; every info line judged; distinct = distinct lines sent',
    'C15': 'sessions of lines built from the UCI vocabulary with arguments dropped, duplicated, reordered or replaced by junk, each followed by isready, ended by quit or by closing stdin at a random point; distinct = distinct lines sent',
}


def selftest(prop, d, sessions, cov):
    """a corrupted session must be rejected: drop the (first) bestmove / readyok line of the first session"""
    import copy
    for si, s in enumerate(sessions):
        s2 = copy.deepcopy(s)
        want = 'readyok' if prop == 'C15' else ('info' if prop == 'C14' else 'bestmove')
        idx = [i for i, e in enumerate(s2) if e.get('ev') == 'recv' and e.get('kind') == want]
        if not idx:
            continue
        if prop == 'C14':
            if len(idx) < 2:
                continue
            del s2[idx[0]]           # a missing depth-1 report: depths no longer start at 1
        else:
            s2.insert(idx[0], copy.deepcopy(s2[idx[0]]))    # the line printed twice
        p = os.path.join(d, 'selftest.ndjson')
        write_batch(p, [s2])
        r = validate_uci(p, prop)
        if r['status'] != 'reject':
            raise ToolError('self-test failed: corrupted session accepted (%s)' % r)
        cov['selftest'] = 'session %d with a %s line %s was rejected at line %s' % (
            si, want, 'removed' if prop == 'C14' else 'duplicated', r.get('line'))
        return
    raise ToolError('self-test: no session suitable for corruption')


def run(prop, tier, seed):
    t0 = time.time()
    verdict = Verdict(prop, seed)
    cov = {'states': 0, 'transitions': 0, 'traces_validated_against_impl': 0}
    build_harness()
    d = None
    if prop == 'C08':
        import c08
        sessions, d = c08.run(prop, tier, seed, verdict, cov)
    else:
        # timed phases first (TLC's workers must not starve the engine being timed)
        sessions, d = run_process_level(prop, tier, seed, verdict, cov)
        if prop == 'C10':
            import sched
            sched.run(tier, seed, verdict, cov)
        if not verdict.violations:
            selftest(prop, d, sessions, cov)
        mc_uci(prop, tier, cov)
    if d:
        shutil.rmtree(d, ignore_errors=True)
    cov['rule'] = RULES[prop]
    cov['checker_cmd'] = 'tlc spec/Uci.tla (all interleavings); tlc -workers 1 spec/UciTrace.tla per batch (TRACE=<batch>)'
    cov['trusted_base'] = ['TLC 1.8 + CommunityModules', 'lib/engine.py controller (raw fd reads, monotonic timestamps)', 'Chess.tla as validated by MCChess/MCPerft']
    write_evidence(prop, tier, seed, 'model_checking', cov,
                   ['timing allowance 1500 ms; timed phases run before TLC with at most %d engines at once' % PAR.get(prop, 4),
                    'atomics are treated as sequentially consistent in Uci.tla',
                    'the GUI follows the UCI discipline: a further go only after stop or after seeing bestmove'],
                   time.time() - t0, len(verdict.violations))
    return verdict.exit_code()
