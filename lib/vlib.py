"""Shared machinery of the /verif checks: building the harness, running TLC (model checking
and trace validation), evidence files, known findings, violation reporting.

Exit codes of a check: 0 held on everything explored; 1 violation (VIOLATION line + replay
file); 2 tool error / timeout / broken self-test (never reported as a violation)."""
import concurrent.futures as cf
import json
import os
import random
import re
import shutil
import subprocess
import sys
import time

ROOT = os.path.dirname(os.path.dirname(os.path.abspath(__file__)))
SPEC = os.path.join(ROOT, 'spec')
WORK = os.path.join(ROOT, 'work')
HARNESS_DIR = os.path.join(ROOT, 'harness')
HARNESS = os.path.join(HARNESS_DIR, 'target', 'release', 'rce-verif')
REPO = os.environ.get('VERIF_REPO', '/repo')   # checks use /repo itself; VERIF_REPO is for background runs on a snapshot
TLA_JAR = '/opt/veriftools/tla/tla2tools.jar'
TLA_CP = TLA_JAR + ':/opt/veriftools/tla/CommunityModules-deps.jar'
NCPU = os.cpu_count() or 4

ENGINE_LINKS = ['board', 'board.rs', 'search', 'search.rs', 'uci', 'uci.rs', 'evaluate',
                'evaluate.rs', 'logger.rs', 'bench.rs', 'testing_utils.rs', 'verif.rs']


class ToolError(Exception):
    pass


def log(*a):
    print(*a, file=sys.stderr, flush=True)


def seed_from_env(default=20260927):
    try:
        return int(os.environ.get('VERIF_SEED', default))
    except ValueError:
        return default


def fresh_dir(name):
    d = os.path.join(WORK, name)
    shutil.rmtree(d, ignore_errors=True)
    os.makedirs(d, exist_ok=True)
    return d


def ensure_links():
    src = os.path.join(HARNESS_DIR, 'src')
    for n in ENGINE_LINKS:
        p = os.path.join(src, n)
        tgt = os.path.join(REPO, 'src', n)
        if os.path.islink(p) and os.readlink(p) == tgt:
            continue
        if os.path.lexists(p):
            os.remove(p)
        os.symlink(tgt, p)


_built = False


def build_harness():
    """Rebuild the harness (which compiles /repo's working tree with hooks on)."""
    global _built
    if _built:
        return HARNESS
    ensure_links()
    lock = os.path.join(HARNESS_DIR, 'Cargo.lock')
    if not os.path.exists(lock):
        shutil.copy(os.path.join(REPO, 'Cargo.lock'), lock)
    env = dict(os.environ, CARGO_NET_OFFLINE='true')
    t0 = time.time()
    # serialize concurrent builds (several checks may run at once)
    import fcntl
    os.makedirs(WORK, exist_ok=True)
    with open(os.path.join(WORK, '.build.lock'), 'w') as lk:
        fcntl.flock(lk, fcntl.LOCK_EX)
        p = subprocess.run(['cargo', 'build', '--release', '--offline'], cwd=HARNESS_DIR, env=env,
                           stdout=subprocess.PIPE, stderr=subprocess.STDOUT, text=True)
    if p.returncode != 0:
        log(p.stdout[-4000:])
        raise ToolError('harness build failed (the working tree of /repo does not compile with hooks on)')
    log('[build] harness rebuilt from /repo working tree in %.1fs' % (time.time() - t0))
    _built = True
    return HARNESS


def run_harness(args, timeout=3600, cwd=ROOT, env=None, check=True):
    p = subprocess.run([HARNESS] + [str(a) for a in args], cwd=cwd, stdout=subprocess.PIPE,
                       stderr=subprocess.PIPE, text=True, timeout=timeout, env=env)
    if check and p.returncode != 0:
        raise ToolError('harness %s failed rc=%s: %s' % (args[0], p.returncode, p.stderr[-2000:]))
    return p


# --------------------------------------------------------------------------------------------
# TLC

def tlc_cmd(main_tla, cfg, metadir, workers=1, extra=()):
    return ['java', '-XX:+UseParallelGC', '-cp', TLA_CP, 'tlc2.TLC', '-workers', str(workers), '-checkpoint', '0',
            '-metadir', metadir, '-cleanup', '-noGenerateSpecTE', '-config', cfg] + list(extra) + [main_tla]


def run_tlc(main_tla, cfg_text, name, workers=1, timeout=1800, env_extra=None, jvm=None, extra=()):
    """Run TLC on spec/<main_tla> with the given configuration text. Returns (rc, output)."""
    d = os.path.join(WORK, 'tlc', name)
    shutil.rmtree(d, ignore_errors=True)
    os.makedirs(d, exist_ok=True)
    cfg = os.path.join(d, 'run.cfg')
    with open(cfg, 'w') as f:
        f.write(cfg_text)
    env = dict(os.environ)
    env['JAVA_TOOL_OPTIONS'] = jvm or '-XX:ParallelGCThreads=4 -Xms1g -Xmx12g -Xss512m'
    if env_extra:
        env.update(env_extra)
    cmd = tlc_cmd(os.path.join(SPEC, main_tla), cfg, os.path.join(d, 'md'), workers, extra)
    try:
        p = subprocess.run(cmd, cwd=d, env=env, stdout=subprocess.PIPE, stderr=subprocess.STDOUT,
                           text=True, timeout=timeout)
    except subprocess.TimeoutExpired:
        shutil.rmtree(d, ignore_errors=True)
        raise ToolError('TLC timed out after %ss on %s (%s)' % (timeout, main_tla, name))
    out = p.stdout
    shutil.rmtree(d, ignore_errors=True)
    return p.returncode, out


STATS_RE = re.compile(r'(\d+) states generated, (\d+) distinct states found')


def mc_stats(out):
    m = None
    for m in STATS_RE.finditer(out):
        pass
    if not m:
        return 0, 0
    return int(m.group(1)), int(m.group(2))


def model_check(main_tla, cfg_text, name, workers=None, timeout=1800, expect_violation=False):
    """Exhaustive TLC run. Returns dict(ok, generated, distinct, out). Raises ToolError on tool problems."""
    rc, out = run_tlc(main_tla, cfg_text, name, workers=workers or max(2, NCPU - 2), timeout=timeout)
    gen, dist = mc_stats(out)
    violated = ('is violated' in out) or ('Error: Invariant' in out) or ('Error: Action property' in out) \
        or ('Temporal properties were violated' in out) or ('Assumption' in out and 'is false' in out)
    completed = 'Model checking completed. No error has been found.' in out
    if not violated and not completed:
        log(out[-3000:])
        raise ToolError('TLC did not complete on %s (%s), rc=%s' % (main_tla, name, rc))
    return {'ok': completed and not violated, 'generated': gen, 'distinct': dist, 'out': out}


TRACE_JVM = '-XX:ParallelGCThreads=2 -Xms1g -Xmx4g -Xss512m -Dtlc2.tool.queue.IStateQueue=StateDeque'
# TLC wraps long tuples over several lines and then puts blanks after << and before >>
ACCEPT_RE = re.compile(r'<<\s*"ACCEPT",\s*([-\d,\s]*?)\s*>>', re.S)
REJECT_RE = re.compile(r'<<\s*"REJECT",\s*(\d+),\s*"([^"]*)",\s*\{(.*?)\}\s*>>', re.S)


def validate_trace(trace_file, mode, spec='ChessTrace.tla', constants=None, timeout=1800, invariants=('SpecStateOK',)):
    """Validate one ndjson batch against a trace spec. Returns a dict with status accept/reject/error."""
    name = 'tv-%s-%s-%d' % (mode, os.path.basename(trace_file).replace('.ndjson', ''), os.getpid())
    cfg = 'SPECIFICATION TSpec\nCONSTANT Mode = "%s"\n' % mode
    for k, v in (constants or {}).items():
        cfg += 'CONSTANT %s = %s\n' % (k, v)
    for inv in invariants:
        cfg += 'INVARIANT %s\n' % inv
    cfg += 'CHECK_DEADLOCK FALSE\n'
    t0 = time.time()
    try:
        rc, out = run_tlc(spec, cfg, name, workers=1, timeout=timeout,
                          env_extra={'TRACE': os.path.abspath(trace_file)}, jvm=TRACE_JVM)
    except ToolError as e:
        return {'file': trace_file, 'status': 'error', 'detail': str(e), 'wall': time.time() - t0}
    gen, dist = mc_stats(out)
    res = {'file': trace_file, 'mode': mode, 'states': dist, 'wall': time.time() - t0}
    m = REJECT_RE.search(out)
    if m:
        res.update(status='reject', line=int(m.group(1)), ev=m.group(2),
                   fails=sorted(x.strip().strip('"') for x in m.group(3).split(',') if x.strip()))
        return res
    m = ACCEPT_RE.search(out)
    if m and 'Model checking completed. No error has been found.' in out:
        nums = [int(x) for x in re.findall(r'-?\d+', m.group(1))]
        res.update(status='accept', nums=nums)
        return res
    res.update(status='error', detail=out[-3000:])
    return res


def validate_many(files, mode, spec='ChessTrace.tla', jobs=None, **kw):
    jobs = jobs or max(1, min(len(files), NCPU - 2))
    with cf.ThreadPoolExecutor(max_workers=jobs) as ex:
        return list(ex.map(lambda f: validate_trace(f, mode, spec=spec, **kw), files))


# --------------------------------------------------------------------------------------------
# findings, evidence, verdict

def load_findings():
    p = os.path.join(ROOT, 'known_findings.json')
    if not os.path.exists(p):
        return []
    return json.load(open(p)).get('findings', [])


def match_known(prop, signature):
    """A violation is a known finding iff an entry with status 'known' for this property has a
    signature all of whose keys equal the violation's."""
    for f in load_findings():
        if f.get('property') != prop or f.get('status') != 'known':
            continue
        sig = f.get('signature', {})
        if sig and all(signature.get(k) == v for k, v in sig.items()):
            return f
    return None


def write_evidence(prop, tier, seed, level, coverage, assumptions, wall, violations):
    os.makedirs(os.path.join(ROOT, 'evidence'), exist_ok=True)
    ev = {'property_id': prop, 'tier': tier, 'seed': int(seed), 'level': level, 'coverage': coverage,
          'assumptions': assumptions, 'wall_s': round(wall, 2), 'violations': int(violations)}
    with open(os.path.join(ROOT, 'evidence', prop + '.json'), 'w') as f:
        json.dump(ev, f, indent=1)
    return ev


def save_replay(prop, seed, idx, payload, trace_src=None, cut_line=None):
    os.makedirs(os.path.join(ROOT, 'replays'), exist_ok=True)
    base = os.path.join(ROOT, 'replays', '%s-seed%s-%d' % (prop, seed, idx))
    if trace_src:
        dst = base + '.ndjson'
        with open(trace_src) as fi, open(dst, 'w') as fo:
            for i, line in enumerate(fi, 1):
                fo.write(line)
                if cut_line and i >= cut_line:
                    break
        payload['trace'] = dst
    path = base + '.json'
    with open(path, 'w') as f:
        json.dump(payload, f, indent=1)
    return path


VIOLATIONS_REPORTED = [0]     # VIOLATION lines printed by this process


class Verdict:
    """Collects violations / known findings of one check run and produces the exit code."""

    def __init__(self, prop, seed):
        self.prop = prop
        self.seed = seed
        self.violations = []   # (signature, replay path)
        self.known = []

    def report(self, signature, payload, trace_src=None, cut_line=None):
        k = match_known(self.prop, signature)
        if k:
            if not any(x is k for x in self.known):
                self.known.append(k)
                print('KNOWN-FINDING: property=%s %s' % (self.prop, k.get('what', '')), flush=True)
            return
        payload = dict(payload, property=self.prop, signature=signature, seed=self.seed)
        path = save_replay(self.prop, self.seed, len(self.violations), payload, trace_src, cut_line)
        self.violations.append((signature, path))
        VIOLATIONS_REPORTED[0] += 1
        print('VIOLATION property=%s replay=%s' % (self.prop, path), flush=True)
        log('  what: %s' % json.dumps(signature)[:600])

    def exit_code(self):
        return 1 if self.violations else 0


def read_events(path, upto=None):
    out = []
    with open(path) as f:
        for i, line in enumerate(f, 1):
            out.append(json.loads(line))
            if upto and i >= upto:
                break
    return out


def trim_event(e, maxlen=400):
    s = json.dumps(e, separators=(',', ':'))
    return s if len(s) <= maxlen else s[:maxlen] + '...'
