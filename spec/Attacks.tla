------------------------------ MODULE Attacks ------------------------------
(***************************************************************************)
(* Attack sets of chess pieces as definitions over squares 0..63 (a1 = 0), *)
(* independent of bitboards and magic tables.                              *)
(*   RayAttack(sq, d, occ)  squares reached sliding from sq in direction d *)
(*                          up to and including the first occupied square  *)
(*   SliderAttacks(kind, sq, occ), Knight(sq), King(sq), PawnAtt(c, sq)    *)
(***************************************************************************)
EXTENDS Integers, Sequences, FiniteSets

Sq == 0..63
F(s) == s % 8
R(s) == s \div 8
On(f, r) == f >= 0 /\ f <= 7 /\ r >= 0 /\ r <= 7
\* N NE E SE S SW W NW, as <<file step, rank step>>
Dirs == << <<0,1>>, <<1,1>>, <<1,0>>, <<1,-1>>, <<0,-1>>, <<-1,-1>>, <<-1,0>>, <<-1,1>> >>
RookDirs == {1, 3, 5, 7}
BishopDirs == {2, 4, 6, 8}
DirsOf(kind) == CASE kind = "R" -> RookDirs [] kind = "B" -> BishopDirs [] kind = "Q" -> 1..8

\* The squares of the ray from sq in direction number d, nearest first.
RECURSIVE RayFrom(_, _, _)
RayFrom(f, r, d) ==
  LET nf == f + Dirs[d][1]  nr == r + Dirs[d][2] IN
  IF On(nf, nr) THEN <<nr * 8 + nf>> \o RayFrom(nf, nr, d) ELSE <<>>
Ray(sq, d) == RayFrom(F(sq), R(sq), d)

\* Number of squares of the ray that are attacked: up to and including the first blocker.
RECURSIVE PrefixLen(_, _, _)
PrefixLen(ray, occ, i) ==
  IF i > Len(ray) THEN Len(ray)
  ELSE IF ray[i] \in occ THEN i
  ELSE PrefixLen(ray, occ, i + 1)

RayAttack(sq, d, occ) == LET ry == Ray(sq, d) IN {ry[i] : i \in 1..PrefixLen(ry, occ, 1)}
SliderAttacks(kind, sq, occ) == UNION {RayAttack(sq, d, occ) : d \in DirsOf(kind)}
LineSquares(kind, sq) == UNION {{Ray(sq, d)[i] : i \in 1..Len(Ray(sq, d))} : d \in DirsOf(kind)}

Steps(sq, D) == {(R(sq) + d[2]) * 8 + F(sq) + d[1] : d \in {e \in D : On(F(sq) + e[1], R(sq) + e[2])}}
Knight(sq) == Steps(sq, {<<1,2>>, <<2,1>>, <<2,-1>>, <<1,-2>>, <<-1,-2>>, <<-2,-1>>, <<-2,1>>, <<-1,2>>})
King(sq) == Steps(sq, {<<1,0>>, <<1,1>>, <<0,1>>, <<-1,1>>, <<-1,0>>, <<-1,-1>>, <<0,-1>>, <<1,-1>>})
PawnAtt(c, sq) == Steps(sq, IF c = "w" THEN {<<-1,1>>, <<1,1>>} ELSE {<<-1,-1>>, <<1,-1>>})
=============================================================================
