---------------------------- MODULE AttacksTrace ----------------------------
(***************************************************************************)
(* impl -> spec: attack lookups recorded from the engine, each judged      *)
(* directly against Attacks.tla (this also judges the composition step     *)
(* used by the exhaustive table comparison).                               *)
(*   {"k": "R"|"B"|"Q"|"N"|"K"|"P"|"p", "sq": n, "occ": [..], "res": [..]} *)
(***************************************************************************)
EXTENDS Attacks, Json, IOUtils, TLC
VARIABLE x
Rec == ndJsonDeserialize(IOEnv.TRACE)
SetOf(seq) == {seq[i] : i \in 1..Len(seq)}
Expected(r) ==
  CASE r.k \in {"R", "B", "Q"} -> SliderAttacks(r.k, r.sq, SetOf(r.occ))
    [] r.k = "N" -> Knight(r.sq)
    [] r.k = "K" -> King(r.sq)
    [] r.k = "P" -> PawnAtt("w", r.sq)
    [] r.k = "p" -> PawnAtt("b", r.sq)
Bad == {i \in 1..Len(Rec) : SetOf(Rec[i].res) # Expected(Rec[i]) \/ Cardinality(SetOf(Rec[i].res)) # Len(Rec[i].res)}
Init == /\ x = 0
        /\ IF Bad = {} THEN PrintT(<<"ACCEPT", Len(Rec)>>)
           ELSE LET i == CHOOSE j \in Bad : \A k \in Bad : j <= k IN
                PrintT(<<"REJECT", i, Rec[i].k, Rec[i].sq, Rec[i].occ, Rec[i].res>>)
Next == UNCHANGED x
=============================================================================
