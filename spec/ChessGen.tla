------------------------------ MODULE ChessGen ------------------------------
(***************************************************************************)
(* spec -> impl: enumerates every position within MaxDepthStart plies of   *)
(* the start position and MaxDepthSeed plies of each seed, and prints one  *)
(* JSON line per distinct position: a path that reaches it, the position,  *)
(* Legal(st) with flags and captured pieces, and the check status.  The    *)
(* harness walks each path through the real Board and compares.            *)
(***************************************************************************)
EXTENDS Chess, MCSeeds, Json, SequencesExt

CONSTANTS MaxDepthStart, MaxDepthSeed
VARIABLES depth, seed, path
gvars == <<vars, depth, seed, path>>

AllSeeds == SeedStart \o SeedCorner \o SeedPerft

GInit ==
  /\ \E i \in 1..Len(AllSeeds) :
        LET s == ParseFen(AllSeeds[i]) IN WellFormed(s) /\ st = s /\ seed = i
  /\ hist = {} /\ stack = <<>> /\ depth = 0 /\ path = <<>>

GNext ==
  /\ depth < (IF seed = 1 THEN MaxDepthStart ELSE MaxDepthSeed)
  /\ \E m \in Legal(st) : MakeCommitted(m) /\ path' = Append(path, <<m.from, m.to, m.promo>>)
  /\ depth' = depth + 1
  /\ UNCHANGED seed

GSpec == GInit /\ [][GNext]_gvars
GView == <<st, depth, seed>>

FlagCode(m) == CASE m.flag = "n" -> 0 [] m.flag = "dp" -> 1 [] m.flag = "ep" -> 2 [] OTHER -> 3
RightBit(x) == IF x \in st.castle THEN 1 ELSE 0
Emit ==
  PrintT(<<"GEN", ToJson([
     seed  |-> seed,
     path  |-> path,
     legal |-> SetToSeq({<<m.from, m.to, m.promo, FlagCode(m), Captured(st, m)>> : m \in Legal(st)}),
     chk   |-> IF InCheck(st.board, st.turn) THEN 1 ELSE 0,
     pos   |-> [b |-> [i \in 1..64 |-> st.board[i - 1]],
                t |-> IF st.turn = "w" THEN 0 ELSE 1,
                c |-> <<RightBit("K"), RightBit("Q"), RightBit("k"), RightBit("q")>>,
                ep |-> st.ep, h |-> st.half, f |-> st.full]])>>)
=============================================================================
