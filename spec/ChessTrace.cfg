SPECIFICATION TSpec
CONSTANT Mode = "C01"
INVARIANT SpecStateOK
CHECK_DEADLOCK FALSE
