---------------------------- MODULE ChessTrace ----------------------------
(***************************************************************************)
(* Validation of traces recorded from the real engine Board (harness       *)
(* subcommand chess-trace) against Chess.tla.                              *)
(*                                                                         *)
(* One ndjson line per engine API return; every line carries the full      *)
(* projected state.  The spec state (st, hist, stack) follows the spec's   *)
(* own actions Load / Make / MakeCommitted / Unmake / Query; the logged    *)
(* state is compared with it.  Which comparisons are demanded depends on   *)
(* Mode (one per property), so that a fault is charged to the property it  *)
(* breaks; an event whose precondition fails for a reason that is another  *)
(* property's business puts the rest of that game out of scope.            *)
(*                                                                         *)
(* The step relation is deterministic (everything is logged), so TLC walks *)
(* a single path.  A rejected event prints a REJECT line naming the failed *)
(* conjuncts; a fully consumed trace prints ACCEPT with counters.          *)
(***************************************************************************)
EXTENDS Chess, Json, IOUtils, Bitwise, FiniteSetsExt

CONSTANT Mode

Rec == ndJsonDeserialize(IOEnv.TRACE)
N == Len(Rec)
ZT == Rec[1].w

VARIABLES l,        \* next line to consume
          cur,      \* line of the event that produced the current position
          istack,   \* lines of the events current before each not-yet-undone make
          hkeys,    \* keys (as logged) of the earlier positions of the line
          hkstack,  \* saved hkeys, parallel to stack
          oos,      \* rest of the current game is out of scope for this Mode
          judged,   \* events judged so far
          skipped,  \* events skipped as out of scope
          rejected  \* TRUE once a REJECT has been printed (no further steps)
tvars == <<l, cur, istack, hkeys, hkstack, oos, judged, skipped, rejected>>

-----------------------------------------------------------------------------
(* Logged state -> spec state *)

RightNames == <<"K", "Q", "k", "q">>
LS(s) == [board  |-> [q \in Squares |-> s.b[q + 1]],
          turn   |-> IF s.t = 0 THEN "w" ELSE "b",
          castle |-> {RightNames[i] : i \in {j \in 1..4 : s.c[j] = 1}},
          ep     |-> s.ep,
          half   |-> s.h,
          full   |-> s.f]

FlagCode(m) == CASE m.flag = "n" -> 0 [] m.flag = "dp" -> 1 [] m.flag = "ep" -> 2 [] OTHER -> 3
MoveTuples(s) == {<<m.from, m.to, m.promo, FlagCode(m), Captured(s, m)>> : m \in Legal(s)}
LoggedTuples(s) == {<<s.lm[i][1], s.lm[i][2], s.lm[i][3], s.lm[i][4], s.lm[i][5]>> : i \in 1..Len(s.lm)}

XorC(a, b) == <<a[1] ^^ b[1], a[2] ^^ b[2], a[3] ^^ b[3], a[4] ^^ b[4]>>
KeyXor(s) == FoldSet(LAMBDA i, acc : XorC(ZT[i], acc), <<0, 0, 0, 0>>, Features(s))

\* The move of the spec named by the logged triple <<from, to, promo>> in state s.
MoveOf(s, t) ==
  LET p == s.board[t[1]]  k == Kind(p)
      flag == IF k = 1 /\ (t[2] - t[1] = 16 \/ t[1] - t[2] = 16) THEN "dp"
              ELSE IF k = 1 /\ File(t[1]) # File(t[2]) /\ s.board[t[2]] = 0 THEN "ep"
              ELSE IF k = 6 /\ t[2] - t[1] = 2 THEN "ck"
              ELSE IF k = 6 /\ t[1] - t[2] = 2 THEN "cq"
              ELSE "n"
  IN Mv(t[1], t[2], t[3], flag)

Names(S) == {p[1] : p \in {q \in S : ~q[2]}}      \* names of the failed conjuncts

CmpState(L, s) ==
  Names({<<"placement", L.board = s.board>>, <<"turn", L.turn = s.turn>>,
         <<"rights", L.castle = s.castle>>, <<"ep", L.ep = s.ep>>,
         <<"halfmove", L.half = s.half>>, <<"fullmove", L.full = s.full>>})

HistOf(r) == {Rec[i].s.k : i \in {r.hr[j] : j \in 1..Len(r.hr)}}
HistFails(r, hk) == Names({<<"history", HistOf(r) = hk>>, <<"history-junk", r.hx = 0>>})

MovegenFails(r, s) ==
  Names({<<"legal-set", LoggedTuples(r.s) = MoveTuples(s)>>,
         <<"legal-duplicates", Cardinality(LoggedTuples(r.s)) = Len(r.s.lm)>>,
         <<"check-white", (r.s.chk[1] = 1) = InCheck(s.board, "w")>>,
         <<"check-black", (r.s.chk[2] = 1) = InCheck(s.board, "b")>>})

KeyFails(r, s) ==
  Names({<<"key-incremental-vs-scratch", r.s.k = r.s.fk>>,
         <<"key-vs-features", r.s.k = KeyXor(s)>>})

\* "indistinguishable from before": compare two logged observations of the engine
SameObs(a, b) ==
  Names({<<"placement", a.s.b = b.s.b>>, <<"turn", a.s.t = b.s.t>>, <<"rights", a.s.c = b.s.c>>,
         <<"ep", a.s.ep = b.s.ep>>, <<"halfmove", a.s.h = b.s.h>>, <<"fullmove", a.s.f = b.s.f>>,
         <<"key", a.s.k = b.s.k>>, <<"check", a.s.chk = b.s.chk>>,
         <<"legal-moves", LoggedTuples(a.s) = LoggedTuples(b.s)>>,
         <<"history", HistOf(a) = HistOf(b)>>})

-----------------------------------------------------------------------------
(* Per-mode judgement of one event.                                         *)
(* Returns <<inScope, failures>>; s is the spec state after the event.      *)

Judge(r, s, hk) ==
  LET L == LS(r.s)
      agree == CmpState(L, s) = {}
  IN
  CASE Mode = "C01" ->
         \* judged against the position the rules say has been reached (s), whatever the engine believes:
         \* a board that has drifted from the game offers the wrong moves for it
         IF ~WellFormed(s) THEN <<FALSE, {}>> ELSE <<TRUE, MovegenFails(r, s)>>
    [] Mode = "C03" ->
         IF r.ev = "make" THEN <<TRUE, CmpState(L, s) \cup HistFails(r, hk)>>
         ELSE IF ~agree THEN <<FALSE, {}>> ELSE <<TRUE, {}>>
    [] Mode = "C02" ->
         IF r.ev = "unmake" THEN
            <<TRUE, CmpState(L, s) \cup HistFails(r, hk) \cup SameObs(r, Rec[istack[Len(istack)]])
                    \cup Names({<<"board-equals-snapshot", r.eq>>})>>
         ELSE IF r.ev = "query" THEN
            <<TRUE, SameObs(r, Rec[cur]) \cup Names({<<"board-equals-snapshot", r.eq>>})>>
         ELSE IF ~agree THEN <<FALSE, {}>> ELSE <<TRUE, {}>>
    [] Mode \in {"C04", "C05"} ->
         IF ~agree THEN <<FALSE, {}>> ELSE <<TRUE, IF Mode = "C04" THEN KeyFails(r, s) ELSE {}>>
    [] Mode = "C07" ->
         IF r.ev = "load" THEN <<TRUE, CmpState(L, s) \cup Names({<<"history-empty", r.hr = <<>> /\ r.hx = 0>>})>>
         ELSE <<agree, {}>>
    [] OTHER -> <<TRUE, {}>>

Reject(what) ==
  /\ PrintT(<<"REJECT", l, Rec[l].ev, what>>)
  /\ rejected' = TRUE
  /\ UNCHANGED <<vars, l, cur, istack, hkeys, hkstack, oos, judged, skipped>>

\* verdict on a position-changing event (s: spec state after it, hk: history keys after it)
Verdict(r, s, hk) == IF oos /\ r.ev # "load" THEN <<FALSE, {}>> ELSE Judge(r, s, hk)

Advance(j, hk, newcur, nist, nhks) ==
  /\ l' = l + 1
  /\ cur' = newcur /\ istack' = nist /\ hkeys' = hk /\ hkstack' = nhks
  /\ oos' = ~j[1]
  /\ judged' = IF j[1] THEN judged + 1 ELSE judged
  /\ skipped' = IF j[1] THEN skipped ELSE skipped + 1
  /\ rejected' = FALSE

Skip(newoos) ==
  /\ UNCHANGED vars
  /\ l' = l + 1 /\ skipped' = skipped + 1 /\ oos' = newoos
  /\ UNCHANGED <<cur, istack, hkeys, hkstack, judged, rejected>>

-----------------------------------------------------------------------------
(* Trace actions: event + spec action + logged fields *)

TLoad ==
  /\ Rec[l].ev = "load"
  /\ LET r == Rec[l]  s == ParseFen(r.chars)  j == Verdict(r, s, {}) IN
     IF j[2] # {} THEN Reject(j[2])
     ELSE Load(s) /\ Advance(j, {}, l, <<>>, <<>>)

TMake ==
  /\ Rec[l].ev = "make"
  /\ LET r == Rec[l]
         m == MoveOf(st, r.mv)
         commit == "commit" \in DOMAIN r /\ r.commit
     IN
     IF oos THEN Skip(TRUE)      \* the spec no longer follows this game
     ELSE IF ~IsLegalMove(st, m) THEN
        \* the engine played a move the rules do not allow: movegen's fault (C01), otherwise out of scope
        IF Mode = "C01" THEN Reject({"played-move-not-legal"}) ELSE Skip(TRUE)
     ELSE
        LET hk == hkeys \cup {Rec[cur].s.k}
            j == Verdict(r, Apply(st, m), hk) IN
        IF j[2] # {} THEN Reject(j[2])
        ELSE /\ IF commit THEN MakeCommitted(m) ELSE Make(m)
             /\ Advance(j, hk, l,
                        IF commit THEN <<>> ELSE Append(istack, cur),
                        IF commit THEN <<>> ELSE Append(hkstack, hkeys))

TUnmake ==
  /\ Rec[l].ev = "unmake"
  /\ LET r == Rec[l] IN
     IF oos \/ stack = <<>> THEN Skip(TRUE)
     ELSE
        LET hk == hkstack[Len(hkstack)]
            j == Verdict(r, stack[Len(stack)][1], hk) IN
        IF j[2] # {} THEN Reject(j[2])
        ELSE /\ Unmake
             /\ Advance(j, hk, istack[Len(istack)],
                        SubSeq(istack, 1, Len(istack) - 1), SubSeq(hkstack, 1, Len(hkstack) - 1))

TQuery ==
  /\ Rec[l].ev = "query"
  /\ LET j == Verdict(Rec[l], st, hkeys) IN
     IF j[2] # {} THEN Reject(j[2])
     ELSE Query /\ Advance(j, hkeys, cur, istack, hkstack)

\* A derived position loaded into a separate board: the game does not move.
ProbeFails(r) ==
  LET P == ParseFen(r.chars)  L == LS(r.s)
      four == r.kind = "same4"
      c == Rec[cur]
      loadedOK == /\ L.board = P.board /\ L.turn = P.turn /\ L.castle = P.castle /\ L.ep = P.ep
                  /\ (four \/ (L.half = P.half /\ L.full = P.full))
  IN
  CASE Mode = "C07" ->
         Names({<<"placement", L.board = P.board>>, <<"turn", L.turn = P.turn>>,
                <<"rights", L.castle = P.castle>>, <<"ep", L.ep = P.ep>>,
                <<"halfmove", L.half = P.half>>, <<"fullmove", L.full = P.full>>})
         \cup (IF r.kind \in {"same", "same4"} /\ ~oos
               THEN Names({<<"fen-twin-key", r.s.k = c.s.k>>, <<"fen-twin-check", r.s.chk = c.s.chk>>})
               ELSE {})
    [] Mode = "C04" ->
         (IF loadedOK THEN KeyFails(r, P) ELSE {})
         \* "loading that position from FEN gives that key too" is C04's own statement, whoever is at fault
         \cup (IF r.kind \in {"same", "same4"} /\ ~oos
               THEN Names({<<"fen-vs-play-key", r.s.k = c.s.k>>}) ELSE {})
    [] Mode = "C17" ->
         IF ~loadedOK \/ oos THEN {}
         ELSE IF r.kind = "mirror" /\ PosId(P) = PosId(Mirror(LS(c.s)))
              THEN Names({<<"eval-mirror", r.s.e = c.s.e>>})
         ELSE IF r.kind = "swap" /\ PosId(P) = PosId(SwapTurn(LS(c.s)))
              THEN Names({<<"eval-swap", r.s.e = 0 - c.s.e>>})
         ELSE {}
    [] OTHER -> {}

TProbe ==
  /\ Rec[l].ev = "probe"
  /\ LET f == ProbeFails(Rec[l]) IN
     IF f # {} THEN Reject(f)
     ELSE /\ UNCHANGED vars
          /\ l' = l + 1 /\ judged' = judged + 1
          /\ UNCHANGED <<cur, istack, hkeys, hkstack, oos, skipped, rejected>>

\* Two boards holding the same position (one reached by play, one loaded from its FEN)
\* observed side by side while the same moves are played on both.
TTwin ==
  /\ Rec[l].ev = "twin"
  /\ LET r == Rec[l]
         f == IF Mode # "C07" THEN {} ELSE
              Names({<<"twin-placement", r.a.b = r.b.b>>, <<"twin-turn", r.a.t = r.b.t>>,
                     <<"twin-rights", r.a.c = r.b.c>>, <<"twin-ep", r.a.ep = r.b.ep>>,
                     <<"twin-key", r.a.k = r.b.k>>, <<"twin-check", r.a.chk = r.b.chk>>,
                     <<"twin-eval", r.a.e = r.b.e>>,
                     <<"twin-legal", LoggedTuples(r.a) = LoggedTuples(r.b)>>,
                     <<"twin-clocks", ~r.six \/ (r.a.h = r.b.h /\ r.a.f = r.b.f)>>})
     IN
     IF f # {} THEN Reject(f)
     ELSE /\ UNCHANGED vars
          /\ l' = l + 1 /\ judged' = judged + 1
          /\ UNCHANGED <<cur, istack, hkeys, hkstack, oos, skipped, rejected>>

TPanic ==
  /\ Rec[l].ev = "panic"
  /\ Reject({"engine-panicked"})

\* End of batch: keys as a function of the position (C04) and injective (C05) over everything
\* the engine reported in this batch, and sanity of the table (C05).
Obs == {i \in 2..N : Rec[i].ev \in {"load", "make", "unmake", "query", "probe"}}
Pairs == {<<PosId(LS(Rec[i].s)), Rec[i].s.k>> : i \in Obs}
FinalFails ==
  CASE Mode = "C04" -> Names({<<"same-position-same-key",
                                Cardinality(Pairs) = Cardinality({p[1] : p \in Pairs})>>})
    [] Mode = "C05" -> Names({<<"different-position-different-key",
                                Cardinality(Pairs) = Cardinality({p[2] : p \in Pairs})>>,
                              <<"table-words-distinct",
                                Cardinality({ZT[i] : i \in 1..781}) = 781>>,
                              <<"table-words-nonzero", \A i \in 1..781 : ZT[i] # <<0, 0, 0, 0>>>>})
    [] OTHER -> {}

TEnd ==
  /\ l = N + 1
  /\ LET f == FinalFails IN
     IF f # {} THEN /\ PrintT(<<"REJECT", l, "end", f>>) /\ rejected' = TRUE /\ l' = l
     ELSE /\ PrintT(<<"ACCEPT", N, judged, skipped, Cardinality(Pairs)>>)
          /\ l' = l + 1 /\ rejected' = FALSE
  /\ UNCHANGED <<vars, cur, istack, hkeys, hkstack, oos, judged, skipped>>

TInit ==
  /\ Rec[1].ev = "ztable"
  /\ st = StartState /\ hist = {} /\ stack = <<>>
  /\ l = 2 /\ cur = 1 /\ istack = <<>> /\ hkeys = {} /\ hkstack = <<>>
  /\ oos = TRUE /\ judged = 0 /\ skipped = 0 /\ rejected = FALSE

TNext ==
  /\ ~rejected
  /\ \/ (l <= N /\ (TLoad \/ TMake \/ TUnmake \/ TQuery \/ TProbe \/ TTwin \/ TPanic))
     \/ TEnd

TSpec == TInit /\ [][TNext]_<<vars, tvars>>

\* Invariants of Chess.tla evaluated on every reconstructed state while in scope.
SpecStateOK == oos \/ StateType
=============================================================================
