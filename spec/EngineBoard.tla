---------------------------- MODULE EngineBoard ----------------------------
(***************************************************************************)
(* The engine's Board as it is actually implemented (board.rs), next to    *)
(* the abstract position of Chess.tla, with the refinement mapping checked *)
(* as an invariant.  Implementation-shaped state:                          *)
(*   eb      placement, side to move, en-passant file, full-move number    *)
(*   eh      the undo stack `history`: one record per move played (and one *)
(*           synthetic bottom record made by the FEN loader), each holding *)
(*           the move, the moved / captured / promoted piece, its flags    *)
(*           and the castling rights and half-move clock AFTER the move    *)
(*   ekey    the incrementally maintained key, as a set of features        *)
(*           (XOR = symmetric difference)                                  *)
(*   ephist  `position_history`: key -> number of occurrences on the line  *)
(*                                                                         *)
(* make_move / unmake_move are transcribed step by step: unmake restores   *)
(* the rights, the clock and the en-passant file from the record BELOW the *)
(* popped one, re-toggles the key for every right that differs, etc.       *)
(*                                                                         *)
(* Refinement (checked on every reachable state): the abstraction of the   *)
(* engine state equals Chess.tla's <<st, hist>> which is driven by the     *)
(* abstract Make / Unmake in lock step.  This is C02, C03 and C04 at       *)
(* design level.  Legacy switch HistIsSet reproduces the pinned code's     *)
(* HashSet (defect D1): TLC then finds the take-back that forgets an       *)
(* earlier occurrence.                                                     *)
(***************************************************************************)
EXTENDS Chess, MCSeeds

CONSTANTS MaxDepth, HistIsSet, SeedSet
VARIABLES eb, eh, ekey, ephist, depth
evars == <<vars, eb, eh, ekey, ephist, depth>>

Toggle(F, x) == IF x \in F THEN F \ {x} ELSE F \cup {x}
RECURSIVE ToggleAll(_, _)
ToggleAll(F, xs) == IF xs = <<>> THEN F ELSE ToggleAll(Toggle(F, Head(xs)), Tail(xs))
PF(p, s) == (p - 1) * 64 + s + 1
Last(s) == s[Len(s)]

Bump(b, k) == IF k \in DOMAIN b THEN [b EXCEPT ![k] = b[k] + 1] ELSE [x \in DOMAIN b \cup {k} |-> IF x = k THEN 1 ELSE b[x]]
Drop(b, k) ==
  IF k \notin DOMAIN b THEN b
  ELSE IF HistIsSet \/ b[k] = 1 THEN [x \in DOMAIN b \ {k} |-> b[x]]       \* legacy: remove outright
  ELSE [b EXCEPT ![k] = b[k] - 1]

\* the synthetic bottom record the FEN loader builds
BottomRec(s) == [from |-> 0, to |-> IF s.ep # -1 THEN s.ep ELSE 0, piece |-> 1, cap |-> 0, promo |-> 0,
                 castles |-> FALSE, ep |-> FALSE, dp |-> s.ep # -1, half |-> s.half, rights |-> s.castle]

EInitFrom(s) ==
  /\ eb = [board |-> s.board, turn |-> s.turn, ep |-> s.ep, full |-> s.full]
  /\ eh = <<BottomRec(s)>>
  /\ ekey = Features(s)
  /\ ephist = [x \in {} |-> 0]

\* ------------------------------------------------------------------ make_move, step by step
EngineMake(m) ==
  LET b == eb.board  c == eb.turn  prev == Last(eh)
      mover == b[m.from]
      isEp == m.flag = "ep"
      cap == IF isEp THEN Mk(Opp(c), 1) ELSE b[m.to]
      capSq == IF isEp THEN SqOf(File(m.to), Rank(m.from)) ELSE m.to
      placed == IF m.promo # 0 THEN Mk(c, m.promo) ELSE mover
      castles == m.flag \in {"ck", "cq"}
      r0 == IF c = "w" THEN 0 ELSE 56
      rookFrom == IF m.flag = "ck" THEN r0 + 7 ELSE r0
      rookTo == IF m.flag = "ck" THEN r0 + 5 ELSE r0 + 3
      \* key: clear old ep, set new ep
      k1 == ToggleAll(ekey, (IF eb.ep # -1 THEN <<773 + eb.ep>> ELSE <<>>)
                             \o (IF m.flag = "dp" THEN <<773 + File(m.to)>> ELSE <<>>))
      \* move_piece
      k2 == ToggleAll(k1, <<PF(mover, m.from)>> \o (IF cap # 0 THEN <<PF(cap, capSq)>> ELSE <<>>) \o <<PF(placed, m.to)>>)
      b2 == [s \in Squares |-> IF s = m.to THEN placed ELSE IF s = m.from THEN 0
                               ELSE IF cap # 0 /\ s = capSq THEN 0 ELSE b[s]]
      \* castling rook
      k3 == IF castles THEN ToggleAll(k2, <<PF(Mk(c, 4), rookFrom), PF(Mk(c, 4), rookTo)>>) ELSE k2
      b3 == IF castles THEN [b2 EXCEPT ![rookFrom] = 0, ![rookTo] = Mk(c, 4)] ELSE b2
      \* rights: by (piece, start) then by (captured piece, destination)
      lost1 == CASE Kind(mover) = 6 -> (IF c = "w" THEN {"K", "Q"} ELSE {"k", "q"})
                 [] mover = 4 /\ m.from = 0 -> {"Q"}  [] mover = 4 /\ m.from = 7 -> {"K"}
                 [] mover = 10 /\ m.from = 56 -> {"q"} [] mover = 10 /\ m.from = 63 -> {"k"}
                 [] OTHER -> {}
      lost2 == CASE cap = 4 /\ m.to = 0 -> {"Q"}   [] cap = 4 /\ m.to = 7 -> {"K"}
                 [] cap = 10 /\ m.to = 56 -> {"q"} [] cap = 10 /\ m.to = 63 -> {"k"}
                 [] OTHER -> {}
      lost == prev.rights \cap (lost1 \cup lost2)
      k4 == ToggleAll(k3, (IF "K" \in lost THEN <<769>> ELSE <<>>) \o (IF "Q" \in lost THEN <<770>> ELSE <<>>)
                          \o (IF "k" \in lost THEN <<771>> ELSE <<>>) \o (IF "q" \in lost THEN <<772>> ELSE <<>>))
      k5 == Toggle(k4, 781)                                                   \* switch_turn
      rec == [from |-> m.from, to |-> m.to, piece |-> mover, cap |-> cap, promo |-> IF m.promo # 0 THEN placed ELSE 0,
              castles |-> castles, ep |-> isEp, dp |-> m.flag = "dp",
              half |-> IF Kind(mover) = 1 \/ cap # 0 THEN 0 ELSE prev.half + 1,
              rights |-> prev.rights \ lost]
  IN
  /\ ephist' = Bump(ephist, ekey)                     \* remember the position being left
  /\ eb' = [board |-> b3, turn |-> Opp(c), ep |-> IF m.flag = "dp" THEN File(m.to) ELSE -1,
            full |-> IF Opp(c) = "w" THEN eb.full + 1 ELSE eb.full]
  /\ ekey' = k5
  /\ eh' = Append(eh, rec)

\* ------------------------------------------------------------------ unmake_move, step by step
EngineUnmake ==
  LET rec == Last(eh)  below == eh[Len(eh) - 1]
      b == eb.board  c == Opp(eb.turn)                 \* the side that made the move
      r0 == IF c = "w" THEN 0 ELSE 56
      placed == IF rec.promo # 0 THEN rec.promo ELSE rec.piece
      capSq == IF rec.ep THEN SqOf(File(rec.to), Rank(rec.from)) ELSE rec.to
      \* undo_move_piece
      k1 == ToggleAll(ekey, <<PF(placed, rec.to)>> \o (IF rec.cap # 0 THEN <<PF(rec.cap, capSq)>> ELSE <<>>) \o <<PF(rec.piece, rec.from)>>)
      b1 == [s \in Squares |-> IF s = rec.from THEN rec.piece
                               ELSE IF rec.cap # 0 /\ s = capSq THEN rec.cap
                               ELSE IF s = rec.to THEN 0 ELSE b[s]]
      rookFrom == IF rec.to = r0 + 6 THEN r0 + 7 ELSE r0
      rookTo == IF rec.to = r0 + 6 THEN r0 + 5 ELSE r0 + 3
      k2 == IF rec.castles THEN ToggleAll(k1, <<PF(Mk(c, 4), rookTo), PF(Mk(c, 4), rookFrom)>>) ELSE k1
      b2 == IF rec.castles THEN [b1 EXCEPT ![rookTo] = 0, ![rookFrom] = Mk(c, 4)] ELSE b1
      \* revert castling rights in the key: every right that differs between the popped record and the one below
      diff == {x \in {"K", "Q", "k", "q"} : (x \in rec.rights) # (x \in below.rights)}
      k3 == ToggleAll(k2, (IF "K" \in diff THEN <<769>> ELSE <<>>) \o (IF "Q" \in diff THEN <<770>> ELSE <<>>)
                          \o (IF "k" \in diff THEN <<771>> ELSE <<>>) \o (IF "q" \in diff THEN <<772>> ELSE <<>>))
      \* en-passant file: clear the current one, restore from the record below
      k4 == ToggleAll(k3, (IF eb.ep # -1 THEN <<773 + eb.ep>> ELSE <<>>)
                          \o (IF below.dp THEN <<773 + File(below.to)>> ELSE <<>>))
      k5 == Toggle(k4, 781)
  IN
  /\ Len(eh) >= 2
  /\ eb' = [board |-> b2, turn |-> c, ep |-> IF below.dp THEN File(below.to) ELSE -1,
            full |-> IF eb.turn = "w" THEN eb.full - 1 ELSE eb.full]
  /\ ekey' = k5
  /\ eh' = SubSeq(eh, 1, Len(eh) - 1)
  /\ ephist' = Drop(ephist, k5)

\* ------------------------------------------------------------------ joint behaviour
Seeds == IF SeedSet = "start" THEN SeedStart
         ELSE IF SeedSet = "tiny" THEN <<SeedSparse[15], SeedSparse[4]>>
         ELSE SeedCorner \o SeedPerft

EInit ==
  /\ \E i \in 1..Len(Seeds) : LET s == ParseFen(Seeds[i]) IN WellFormed(s) /\ st = s /\ EInitFrom(s)
  /\ hist = {} /\ stack = <<>> /\ depth = 0

ENext ==
  \/ /\ depth < MaxDepth
     /\ \E m \in Legal(st) : Make(m) /\ EngineMake(m)
     /\ depth' = depth + 1
  \/ /\ depth > 0
     /\ Unmake /\ EngineUnmake
     /\ depth' = depth - 1

ESpec == EInit /\ [][ENext]_evars

\* ------------------------------------------------------------------ refinement mapping
AbsState == [board |-> eb.board, turn |-> eb.turn, castle |-> Last(eh).rights, ep |-> eb.ep,
             half |-> Last(eh).half, full |-> eb.full]
StateOfPosId(p) == [board |-> p[1], turn |-> p[2], castle |-> p[3], ep |-> p[4], half |-> 0, full |-> 1]

RefinesPosition == AbsState = st                               \* C03 / C02: every component
RefinesKey == ekey = Features(st)                              \* C04: incremental key = from-scratch key
RefinesHistory == DOMAIN ephist = {Features(StateOfPosId(p)) : p \in hist}      \* remembered positions
StackDepth == Len(eh) = Len(stack) + 1
Refinement == RefinesPosition /\ RefinesKey /\ RefinesHistory /\ StackDepth
=============================================================================
