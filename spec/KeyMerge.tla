------------------------------ MODULE KeyMerge ------------------------------
(***************************************************************************)
(* C04 / C05 across batches: over all (position digest, key) pairs of a    *)
(* run, the key is a function of the position (|pairs| = |positions|) and  *)
(* injective (|pairs| = |keys|).  Digests and keys are 4 x 16-bit tuples.  *)
(***************************************************************************)
EXTENDS Json, IOUtils, FiniteSets, Integers, Sequences, TLC
VARIABLE x
P == JsonDeserialize(IOEnv.PAIRS)
S == {P[i] : i \in 1..Len(P)}
Init == /\ x = 0
        /\ PrintT(<<"MERGE", Cardinality(S),
                    Cardinality({<<p[1], p[2], p[3], p[4]>> : p \in S}),
                    Cardinality({<<p[5], p[6], p[7], p[8]>> : p \in S})>>)
Next == UNCHANGED x
=============================================================================
