----------------------------- MODULE MCAttacks -----------------------------
(***************************************************************************)
(* (1) Theorems about Attacks.tla checked by TLC over the complete finite  *)
(*     domain: 64 squares x {rook, bishop} x every subset of the squares   *)
(*     on the piece's lines (1 119 744 cases), and the leaper tables.      *)
(* (2) Table generation (spec -> impl): the rays and, for every square,    *)
(*     direction and occupancy of the ray, the number of ray squares       *)
(*     attacked, plus the four leaper tables, written as JSON for the      *)
(*     harness, which composes slider sets from them and compares with the *)
(*     engine's magic-bitboard lookups on every case.                      *)
(***************************************************************************)
EXTENDS Attacks, Json, IOUtils, TLC
INSTANCE Chess WITH st <- 0, hist <- 0, stack <- 0       \* only for the definitions Slide / AttackSet

VARIABLES sq, kind
CONSTANTS WriteTables, Part, Parts      \* this process checks the squares sq with sq % Parts = Part

Abs(x) == IF x < 0 THEN 0 - x ELSE x
RECURSIVE Pow2(_)
Pow2(n) == IF n = 0 THEN 1 ELSE 2 * Pow2(n - 1)

\* occupancy of a ray from an index: bit i-1 set <=> ray[i] occupied
RECURSIVE Bit(_, _)
Bit(x, i) == IF i = 0 THEN x % 2 ELSE Bit(x \div 2, i - 1)
OccOf(ray, idx) == {ray[i] : i \in {j \in 1..Len(ray) : Bit(idx, j - 1) = 1}}

PrefixTable(s, d) == LET ry == Ray(s, d) IN [i \in 1..Pow2(Len(ry)) |-> PrefixLen(ry, OccOf(ry, i - 1), 1)]
SortedSeq(S) == LET RECURSIVE Srt(_)
                    Srt(T) == IF T = {} THEN <<>> ELSE
                              LET m == CHOOSE x \in T : \A y \in T : x <= y IN <<m>> \o Srt(T \ {m})
                IN Srt(S)
Tables ==
  [rays   |-> [s \in 1..64 |-> [d \in 1..8 |-> Ray(s - 1, d)]],
   prefix |-> [s \in 1..64 |-> [d \in 1..8 |-> PrefixTable(s - 1, d)]],
   knight |-> [s \in 1..64 |-> SortedSeq(Knight(s - 1))],
   king   |-> [s \in 1..64 |-> SortedSeq(King(s - 1))],
   wpawn  |-> [s \in 1..64 |-> SortedSeq(PawnAtt("w", s - 1))],
   bpawn  |-> [s \in 1..64 |-> SortedSeq(PawnAtt("b", s - 1))]]

\* leaper theorems (no wrap-around, right counts)
LeaperTheorems ==
  /\ \A s \in Sq : \A t \in Knight(s) : {Abs(F(t) - F(s)), Abs(R(t) - R(s))} = {1, 2}
  /\ \A s \in Sq : \A t \in King(s) : Abs(F(t) - F(s)) <= 1 /\ Abs(R(t) - R(s)) <= 1 /\ t # s
  /\ \A s \in Sq : \A t \in PawnAtt("w", s) : Abs(F(t) - F(s)) = 1 /\ R(t) = R(s) + 1
  /\ \A s \in Sq : \A t \in PawnAtt("b", s) : Abs(F(t) - F(s)) = 1 /\ R(t) = R(s) - 1
  /\ \A s, t \in Sq : (t \in Knight(s) <=> s \in Knight(t)) /\ (t \in King(s) <=> s \in King(t))
  /\ \A s, t \in Sq : t \in PawnAtt("w", s) <=> s \in PawnAtt("b", t)
  /\ \A s \in Sq : Cardinality(Knight(s)) \in {2, 3, 4, 6, 8} /\ Cardinality(King(s)) \in {3, 5, 8}

Init ==
  /\ sq \in {s \in Sq : s % Parts = Part} /\ kind \in {"R", "B"}
  /\ (sq = Part /\ kind = "R" /\ Part = 0) => LeaperTheorems
  /\ (sq = Part /\ kind = "R" /\ WriteTables) => JsonSerialize(IOEnv.TABLES, Tables)
Next == UNCHANGED <<sq, kind>>

\* slider theorems on every subset of the line squares of this (square, kind)
BoardOf(occ) == [q \in 0..63 |-> IF q \in occ \/ q = sq THEN 1 ELSE 0]
ChessDirs == IF kind = "R" THEN RookD ELSE BishopD
SliderTheorems ==
  \A occ \in SUBSET LineSquares(kind, sq) :
     LET A == SliderAttacks(kind, sq, occ) IN
     \* agrees with the ray walk of Chess.tla (a second, independently written definition)
     /\ A = UNION {Slide(BoardOf(occ), F(sq), R(sq), d) : d \in ChessDirs}
     \* symmetric: t is attacked from sq iff sq is attacked from t (same occupancy)
     /\ \A t \in A : sq \in SliderAttacks(kind, t, occ)
     \* never attacks its own square, stays on its lines
     /\ sq \notin A /\ A \subseteq LineSquares(kind, sq)
     \* every square strictly before the end of each ray segment is empty, the end is a blocker or the edge
     /\ \A d \in DirsOf(kind) : LET ry == Ray(sq, d)  k == PrefixLen(ry, occ, 1) IN
           /\ \A i \in 1..(k - 1) : ry[i] \notin occ
           /\ (k < Len(ry) => ry[k] \in occ)
=============================================================================
