SPECIFICATION Spec
CONSTANTS
  MaxDepthStart = 2
  MaxDepthSeed = 1
  HeavyChecks = TRUE
VIEW View
INVARIANT Invariants
PROPERTIES RightsOnlyShrink RightLostExactly EpExactly ClockRule HistoryGrows
CHECK_DEADLOCK FALSE
