------------------------------ MODULE MCChess ------------------------------
(***************************************************************************)
(* Bounded exhaustive checking of Chess.tla: every position within         *)
(* MaxDepthStart plies of the start position and within MaxDepthSeed plies *)
(* of each rule-corner / perft seed (parsed by the spec's own FEN reader). *)
(*                                                                         *)
(* Two purposes:                                                           *)
(*  (1) self-validation of the oracle, so that a wrong spec cannot become  *)
(*      a false alarm: two independent attack definitions agree, the       *)
(*      white and black halves of the rules are mirror images, the cheap   *)
(*      legality test equals membership in Legal, perft numbers (MCPerft); *)
(*  (2) the properties at design level: incremental key update equals the  *)
(*      from-scratch feature set (C04), single-component perturbations     *)
(*      change the feature set (C05), evaluation symmetry (C17),           *)
(*      bookkeeping rules as action properties (C03), well-formedness is   *)
(*      preserved (C01's domain).                                          *)
(***************************************************************************)
EXTENDS Chess, MCSeeds

CONSTANTS MaxDepthStart, MaxDepthSeed, HeavyChecks

VARIABLES depth, seed, feats
mcvars == <<vars, depth, seed, feats>>

AllSeeds == SeedStart \o SeedCorner \o SeedPerft

\* The engine's incremental key update, as toggles of features (XOR = symmetric difference).
Toggle(F, x) == IF x \in F THEN F \ {x} ELSE F \cup {x}
RECURSIVE ToggleAll(_, _)
ToggleAll(F, xs) == IF xs = <<>> THEN F ELSE ToggleAll(Toggle(F, Head(xs)), Tail(xs))
PF(p, s) == (p - 1) * 64 + s + 1
IncFeatures(F, s, m) ==
  LET b == s.board  c == s.turn  mover == b[m.from]
      placed == IF m.promo # 0 THEN Mk(c, m.promo) ELSE mover
      r0 == IF c = "w" THEN 0 ELSE 56
      victimSq == IF m.flag = "ep" THEN SqOf(File(m.to), Rank(m.from)) ELSE m.to
      victim == IF m.flag = "ep" THEN Mk(Opp(c), 1) ELSE b[m.to]
      lost == s.castle \cap (RightOfSquare(m.from) \cup RightOfSquare(m.to))
      toggles ==
        (IF s.ep # -1 THEN <<773 + s.ep>> ELSE <<>>)                        \* clear the old ep file
        \o (IF m.flag = "dp" THEN <<773 + File(m.to)>> ELSE <<>>)            \* set the new one
        \o <<PF(mover, m.from)>>                                             \* lift the mover
        \o (IF victim # 0 THEN <<PF(victim, victimSq)>> ELSE <<>>)           \* remove the captured piece
        \o <<PF(placed, m.to)>>                                              \* put down the (promoted) piece
        \o (IF m.flag = "ck" THEN <<PF(Mk(c, 4), r0 + 7), PF(Mk(c, 4), r0 + 5)>> ELSE <<>>)
        \o (IF m.flag = "cq" THEN <<PF(Mk(c, 4), r0), PF(Mk(c, 4), r0 + 3)>> ELSE <<>>)
        \o (IF "K" \in lost THEN <<769>> ELSE <<>>) \o (IF "Q" \in lost THEN <<770>> ELSE <<>>)
        \o (IF "k" \in lost THEN <<771>> ELSE <<>>) \o (IF "q" \in lost THEN <<772>> ELSE <<>>)
        \o <<781>>                                                           \* side to move
  IN ToggleAll(F, toggles)

Init ==
  /\ \E i \in 1..Len(AllSeeds) :
        LET s == ParseFen(AllSeeds[i]) IN
        /\ WellFormed(s)
        /\ st = s /\ seed = i /\ feats = Features(s)
  /\ hist = {} /\ stack = <<>> /\ depth = 0

Lim == IF seed = 1 THEN MaxDepthStart ELSE MaxDepthSeed

Next ==
  /\ depth < Lim
  /\ \E m \in Legal(st) :
        /\ Make(m)
        /\ feats' = IncFeatures(feats, st, m)
  /\ depth' = depth + 1
  /\ UNCHANGED seed

Spec == Init /\ [][Next]_mcvars

View == <<st, depth, seed, feats>>

-----------------------------------------------------------------------------
TypeOK == StateType /\ depth \in 0..20
PositionOK == WellFormed(st)
KeyIncremental == feats = Features(st)                         \* C04 at design level

AttacksAgree ==                                                \* two definitions of "attacked"
  \A s \in Squares : \A c \in {"w", "b"} : Attacked(st.board, s, c) = AttackedDef(st.board, s, c)

MirrorSymmetric ==                                             \* white and black rules are mirror images
  /\ Legal(Mirror(st)) = {MirrorMove(m) : m \in Legal(st)}
  /\ InCheck(Mirror(st).board, Mirror(st).turn) = InCheck(st.board, st.turn)

LegalMoveEquiv == {m \in Pseudo(st) : IsLegalMove(st, m)} = Legal(st)

EvalSymmetric ==                                               \* C17 at design level
  /\ Eval(Mirror(st)) = Eval(st)
  /\ Eval(SwapTurn(st)) = 0 - Eval(st)

\* C05 at design level: any single-component change of the position changes the feature set.
PerturbDistinct ==
  /\ Features([st EXCEPT !.turn = Opp(st.turn)]) # Features(st)
  /\ \A x \in {"K", "Q", "k", "q"} :
        Features([st EXCEPT !.castle = IF x \in st.castle THEN st.castle \ {x} ELSE st.castle \cup {x}])
          # Features(st)
  /\ \A f \in -1..7 : f # st.ep => Features([st EXCEPT !.ep = f]) # Features(st)
  /\ HeavyChecks =>
       \A s \in Squares : \A p \in 0..12 :
          p # st.board[s] => Features([st EXCEPT !.board = [st.board EXCEPT ![s] = p]]) # Features(st)

NoDuplicateNotation ==                                         \* distinct legal moves have distinct UCI strings
  \A m1, m2 \in Legal(st) :
     (m1.from = m2.from /\ m1.to = m2.to /\ m1.promo = m2.promo) => m1 = m2

Invariants ==
  /\ TypeOK /\ PositionOK /\ KeyIncremental /\ LegalMoveEquiv
  /\ EvalSymmetric /\ PerturbDistinct /\ NoDuplicateNotation
  /\ (HeavyChecks => AttacksAgree /\ MirrorSymmetric)

\* C03 at design level, as action properties.
RightsOnlyShrink == [][st'.castle \subseteq st.castle]_mcvars
RightLostExactly ==
  [][\A x \in st.castle :
        (x \notin st'.castle) <=>
          \E q \in Squares : x \in RightOfSquare(q)
                              /\ (st.board[q] # st'.board[q] \/ st'.board[q] = 0)]_mcvars
EpExactly ==
  [][(st'.ep # -1) <=>
        \E f \in 0..7 : LET c == st.turn
                            r2 == IF c = "w" THEN 1 ELSE 6  r4 == IF c = "w" THEN 3 ELSE 4 IN
                        /\ st.board[SqOf(f, r2)] = Mk(c, 1) /\ st'.board[SqOf(f, r2)] = 0
                        /\ st'.board[SqOf(f, r4)] = Mk(c, 1) /\ st.board[SqOf(f, r4)] = 0
                        /\ st'.ep = f]_mcvars
ClockRule ==
  [][LET pieces(b) == Cardinality({s \in Squares : b[s] # 0})
         pawnMoved == \E s \in Squares : Kind(st.board[s]) = 1 /\ ColorOf(st.board[s]) = st.turn
                                          /\ st'.board[s] = 0
         capture == pieces(st'.board) < pieces(st.board) IN
     /\ st'.half = (IF pawnMoved \/ capture THEN 0 ELSE st.half + 1)
     /\ st'.full = (IF st.turn = "b" THEN st.full + 1 ELSE st.full)
     /\ st'.turn = Opp(st.turn)]_mcvars
HistoryGrows == [][hist' = hist \cup {PosId(st)}]_mcvars
=============================================================================
