------------------------------ MODULE MCPerft ------------------------------
(***************************************************************************)
(* Self-validation of the oracle: Chess.tla!Legal / Apply reproduce the    *)
(* published perft numbers (number of legal move paths of a given length)  *)
(* for the start position and positions 2-6 of the standard perft suite.   *)
(* A wrong rule in the spec would show here instead of as a false alarm.   *)
(***************************************************************************)
EXTENDS Chess, MCSeeds, FiniteSetsExt
CONSTANT Deep
VARIABLE x

RECURSIVE Perft(_, _)
Perft(s, d) ==
  IF d = 1 THEN Cardinality(Legal(s))
  ELSE FoldSet(LAMBDA m, acc : acc + Perft(Apply(s, m), d - 1), 0, Legal(s))

P(i) == ParseFen(SeedPerft[i])
Expect(name, got, want) == IF got = want THEN TRUE ELSE PrintT(<<"PERFT MISMATCH", name, got, want>>) /\ FALSE

Quick ==
  /\ Expect("start d3", Perft(StartState, 3), 8902)
  /\ Expect("kiwipete d2", Perft(P(1), 2), 2039)
  /\ Expect("pos3 d3", Perft(P(2), 3), 2812)
  /\ Expect("pos4 d2", Perft(P(3), 2), 264)
  /\ Expect("pos4 mirrored d2", Perft(P(4), 2), 264)
  /\ Expect("pos5 d2", Perft(P(5), 2), 1486)
  /\ Expect("pos6 d2", Perft(P(6), 2), 2079)
Thorough ==
  /\ Expect("start d4", Perft(StartState, 4), 197281)
  /\ Expect("kiwipete d3", Perft(P(1), 3), 97862)
  /\ Expect("pos3 d4", Perft(P(2), 4), 43238)
  /\ Expect("pos4 d3", Perft(P(3), 3), 9467)
  /\ Expect("pos4 mirrored d3", Perft(P(4), 3), 9467)
  /\ Expect("pos5 d3", Perft(P(5), 3), 62379)
  /\ Expect("pos6 d3", Perft(P(6), 3), 89890)

Init == x = 0 /\ st = StartState /\ hist = {} /\ stack = <<>> /\ Quick /\ (Deep => Thorough)
Next == UNCHANGED <<x, vars>>
=============================================================================
