------------------------------ MODULE MCSearch ------------------------------
(* Model-checking harness for Search.tla: all trees of the family whose twin subtrees are equal. *)
EXTENDS Search
MCInit == Init /\ TwinsConsistent
MCSpec == MCInit /\ [][Next]_vars /\ WF_vars(searcher) /\ WF_vars(root("searcher")) /\ WF_vars(ab("searcher"))
NoTwins == {}
Vals3 == {-1, 0, 1}
Vals5 == {-2, -1, 0, 1, 2}
Vals2 == {0, 1}
OneTwin == {<<2, 3>>}
=============================================================================
