----------------------------- MODULE MCUciGen -----------------------------
EXTENDS UciGen
Script1 == <<"go_inf", "stop", "position_ok", "isready", "go_lim">>
Script2 == <<"go_lim", "go_inf", "stop", "go_lim">>
Script3 == <<"go_inf", "isready", "stop", "go_inf", "stop">>
Script4 == <<"go_lim", "stop", "go_lim", "isready">>
=============================================================================
