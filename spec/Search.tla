------------------------------- MODULE Search -------------------------------
(***************************************************************************)
(* The engine's search (search.rs) in two layers.                          *)
(*                                                                         *)
(* (a) The game being searched, as a definition: LookVal / RootVal over an *)
(*     abstract finite game tree (complete B-ary tree of depth D; the      *)
(*     nodes at depth D carry static evaluations chosen freely from Vals,  *)
(*     so one TLC run covers all trees of the family).  The same           *)
(*     definition over real chess trees (with check extension, capture     *)
(*     quiescence, draw rules and mate distance) is in SearchTrace.tla.    *)
(*                                                                         *)
(* (b) The algorithm, in PlusCal, mirroring iter_deep / alpha_beta_start / *)
(*     alpha_beta / quiescence entry / limits_exceeded: fail-hard windows, *)
(*     PVS null-window search and re-search, transposition-table probe     *)
(*     (depth test, Exact/Lower/Upper) and the three store sites, node     *)
(*     counter and node budget, the running flag with an asynchronous      *)
(*     stopper, the abort tests at node entry, at quiescence entry and     *)
(*     after each child returns, the root's refusal to store or adopt an   *)
(*     incomplete iteration, the partial-result rule, the fallback move,   *)
(*     iterative deepening with info lines.                                *)
(*     Move order is a nondeterministic choice among the unvisited moves,  *)
(*     so every ordering heuristic (TT move, MVV-LVA, killers) is covered. *)
(*                                                                         *)
(* Legacy switches reproduce the pinned code: AbortChecked = FALSE (no     *)
(* re-test after a child returns), Fallback = FALSE (unwrap of None).      *)
(***************************************************************************)
EXTENDS Integers, Sequences, FiniteSets, TLC, TTProbe

CONSTANTS B,            \* branching factor
          D,            \* depth of the tree = maximum iteration depth
          Vals,         \* static evaluations of the deepest nodes
          UseTT,        \* probe the transposition table
          Twins,        \* set of <<a, b>>: same-depth nodes that are the same position (equal keys)
          MaxBudget,    \* node budgets 0..MaxBudget are explored, and "none"
          AbortChecked, \* repaired code: re-test running/limits after each child returns
          InteriorEval, \* static evaluation of the nodes above the deepest level (seen by the shallower iterations)
          RootTestFirst, \* the root tests stop/limits BEFORE it compares the child's score with alpha (the code's order)
          Fallback      \* repaired code: first root move when no iteration completed

INF == 100
None == [score |-> 0, depth |-> -1, bound |-> "N", best |-> 0]

\* complete B-ary tree, root 1, children of n: B*(n-1)+2 .. B*(n-1)+B+1
RECURSIVE Pow(_, _)
Pow(b, e) == IF e = 0 THEN 1 ELSE b * Pow(b, e - 1)
RECURSIVE FirstAt(_)
FirstAt(lv) == IF lv = 0 THEN 1 ELSE FirstAt(lv - 1) + Pow(B, lv - 1)       \* first node of level lv
NodesAt(lv) == FirstAt(lv)..(FirstAt(lv) + Pow(B, lv) - 1)
Nodes == 1..(FirstAt(D) + Pow(B, D) - 1)
RECURSIVE LevelOf(_)
LevelOf(n) == IF n = 1 THEN 0 ELSE 1 + LevelOf((n - 2) \div B + 1)
Kids(n) == IF LevelOf(n) >= D THEN {} ELSE (B * (n - 1) + 2)..(B * (n - 1) + B + 1)
Deepest == NodesAt(D)

\* twins share a key (the smaller node id); their subtrees must be equal position by position
RECURSIVE Desc(_, _)          \* j-th descendant pattern: pairs of corresponding nodes under a and b
Desc(a, b) == {<<a, b>>} \cup UNION {Desc(B * (a - 1) + 2 + i, B * (b - 1) + 2 + i) : i \in {j \in 0..(B - 1) : LevelOf(a) < D}}
TwinPairs == UNION {Desc(t[1], t[2]) : t \in Twins}
Key(n) == IF \E p \in TwinPairs : p[2] = n THEN (CHOOSE p \in TwinPairs : p[2] = n)[1] ELSE n

Max2(a, b) == IF a > b THEN a ELSE b
Min2(a, b) == IF a < b THEN a ELSE b
Clamp(x, lo, hi) == IF x >= hi THEN hi ELSE IF x > lo THEN x ELSE lo
MaxOf(S) == CHOOSE x \in S : \A y \in S : y <= x

(* --algorithm Search {
  variables
    leaf \in [Deepest -> Vals],                       \* the tree's evaluations (all trees of the family)
    budget \in (0..MaxBudget) \cup {1000},            \* node budget (1000 = none)
    running = TRUE, nodes = 0, abortSeen = FALSE, wroteDirty = FALSE, unsound = FALSE,
    tt = [k \in Nodes |-> None],
    ret = 0,
    bestMove = 0, bestScore = -1000,                  \* 0 / -1000 = none yet
    done = <<>>,                                      \* done[d] = <<score, move>> of each completed iteration
    info = <<>>,                                      \* depths reported
    answer = -1,                                      \* the bestmove printed (-1 not yet, -2 panic)
    answers = 0;

  define {
    Eval(n) == IF n \in Deepest THEN leaf[n] ELSE InteriorEval
    RECURSIVE LookVal(_, _)
    LookVal(n, d) == IF d = 0 \/ Kids(n) = {} THEN Eval(n)
                     ELSE MaxOf({0 - LookVal(k, d - 1) : k \in Kids(n)})
    RootVal(d) == LookVal(1, d)
    TwinsConsistent == \A p \in TwinPairs : (p[1] \in Deepest => leaf[p[1]] = leaf[p[2]])
    \* the alpha-beta contract of one child search: window (wa, wb), returned r, true value lv
    Sound(wa, wb, r, lv) == \/ wa >= wb
                            \/ /\ (r >= wb => lv >= wb) /\ (r <= wa => lv <= wa)
                               /\ ((wa < r /\ r < wb) => lv = r)
    Judge(wa, wb, r, k, dd) == UseTT \/ abortSeen \/ Sound(wa, wb, r, LookVal(k, dd))
    Exceeded == nodes >= budget
  }

  \* alpha_beta: returns in ret
  procedure ab(nd, alpha, beta, dp)
    variables a = 0, bb = 0, rem = {}, m = 0, sc = 0, pv = FALSE, bestk = 0;
  {
  e0: if (~running \/ Exceeded) {                                   \* abort test at node entry
        if (Exceeded) { running := FALSE; };
        abortSeen := TRUE; ret := 0; return;
      };
  e1: a := alpha; bb := beta;
  e1a: if (UseTT /\ ProbeOutcome(tt[Key(nd)], dp, alpha, beta).ret) {  \* probe: the rule of TTProbe.tla
        ret := ProbeOutcome(tt[Key(nd)], dp, alpha, beta).v; return;
      } else if (UseTT) {
        a := ProbeOutcome(tt[Key(nd)], dp, alpha, beta).a;
        bb := ProbeOutcome(tt[Key(nd)], dp, alpha, beta).b;
      };
  e2: if (dp = 0 \/ Kids(nd) = {}) {
  q0:   if (~running \/ Exceeded) {                                 \* abort test at quiescence entry
          if (Exceeded) { running := FALSE; };
          abortSeen := TRUE; ret := 0; return;
        };
  q1:   ret := Clamp(Eval(nd), a, bb); return;                      \* stand-pat, fail-hard
      };
  e3: rem := Kids(nd); bestk := CHOOSE k \in Kids(nd) : TRUE;
  lp: while (rem # {}) {
        with (k \in rem) { m := k; rem := rem \ {k}; };              \* ANY move order
        nodes := nodes + 1;
  lc:   if (pv) {
          call ab(m, 0 - a - 1, 0 - a, dp - 1);
  r1:     sc := 0 - ret; unsound := unsound \/ ~Judge(0 - a - 1, 0 - a, ret, m, dp - 1);
  r1b:    if (a < sc /\ sc < bb) {
            call ab(m, 0 - bb, 0 - a, dp - 1);
  r2:       sc := 0 - ret; unsound := unsound \/ ~Judge(0 - bb, 0 - a, ret, m, dp - 1);
          };
        } else {
          call ab(m, 0 - bb, 0 - a, dp - 1);
  r3:     sc := 0 - ret; unsound := unsound \/ ~Judge(0 - bb, 0 - a, ret, m, dp - 1);
        };
  ck:   if (AbortChecked /\ (~running \/ Exceeded)) {               \* repair: re-test after the child returns
          if (Exceeded) { running := FALSE; };
          abortSeen := TRUE; ret := 0; return;
        };
  cu:   if (sc >= bb) {
          tt[Key(nd)] := [score |-> sc, depth |-> dp, bound |-> "L", best |-> m];
          wroteDirty := wroteDirty \/ abortSeen;
          ret := bb; return;
        } else if (sc > a) { a := sc; bestk := m; pv := TRUE; };
      };
  st: tt[Key(nd)] := [score |-> a, depth |-> dp, bound |-> IF a <= alpha THEN "U" ELSE "E", best |-> bestk];
      wroteDirty := wroteDirty \/ abortSeen;
      ret := a; return;
  }

  \* alpha_beta_start for one iteration
  procedure root(dr)
    variables ra = -INF, rrem = {}, rm = 0, rsc = 0, rpv = FALSE, rbest = 0;
  {
  s0: rrem := Kids(1); rbest := CHOOSE k \in Kids(1) : TRUE; ra := -INF; rpv := FALSE;
  sl: while (rrem # {}) {
        with (k \in rrem) { rm := k; rrem := rrem \ {k}; };
        nodes := nodes + 1;
        if (rpv) {
          call ab(rm, 0 - ra - 1, 0 - ra, dr - 1);
  t1:     rsc := 0 - ret; unsound := unsound \/ ~Judge(0 - ra - 1, 0 - ra, ret, rm, dr - 1);
          if (ra < rsc /\ rsc < INF) {
            call ab(rm, -INF, 0 - ra, dr - 1);
  t2:       rsc := 0 - ret; unsound := unsound \/ ~Judge(-INF, 0 - ra, ret, rm, dr - 1);
          };
        } else {
          call ab(rm, -INF, 0 - ra, dr - 1);
  t3:     rsc := 0 - ret; unsound := unsound \/ ~Judge(-INF, 0 - ra, ret, rm, dr - 1);
        };
  sj:   if (~RootTestFirst /\ rsc > ra) { ra := rsc; rbest := rm; rpv := TRUE; };   \* the other order: the dummy 0 of an interrupted child competes
  sk:   if (~running \/ Exceeded) {
          if (Exceeded) { running := FALSE; };
          \* do not throw out a partial search just because the current move was not searched
          if (bestScore # -1000 /\ ra > bestScore) { bestScore := ra; bestMove := rbest; };
          return;
        };
  su:   if (RootTestFirst /\ rsc > ra) { ra := rsc; rbest := rm; rpv := TRUE; };
      };
  sf: if (running /\ ~Exceeded) {                                   \* do not save incomplete searches
        tt[Key(1)] := [score |-> ra, depth |-> dr, bound |-> "E", best |-> rbest];
        wroteDirty := wroteDirty \/ abortSeen;
        bestScore := ra; bestMove := rbest;
        done := Append(done, <<ra, rbest>>);
      } else { if (Exceeded) { running := FALSE; }; };
      return;
  }

  fair process (searcher = "searcher")
    variable d = 1;
  {
  it: while (d <= D) {
        call root(d);
  af:   if (~running \/ Exceeded) { goto fin; }
        else { info := Append(info, d); d := d + 1; };
      };
  fin: running := FALSE;                                            \* the search is over (before the answer)
  out: if (bestMove # 0) { answer := bestMove; answers := answers + 1; }
       else if (Fallback) { answer := CHOOSE k \in Kids(1) : TRUE; answers := answers + 1; }
       else { answer := -2; };                                      \* unwrap() on None
  }

  \* the GUI's stop, at any moment
  process (stopper = "stopper")
  {
  x0: running := FALSE;
  }
} *)
\* BEGIN TRANSLATION
CONSTANT defaultInitValue
VARIABLES pc, leaf, budget, running, nodes, abortSeen, wroteDirty, unsound, 
          tt, ret, bestMove, bestScore, done, info, answer, answers, stack

(* define statement *)
Eval(n) == IF n \in Deepest THEN leaf[n] ELSE InteriorEval
RECURSIVE LookVal(_, _)
LookVal(n, d) == IF d = 0 \/ Kids(n) = {} THEN Eval(n)
                 ELSE MaxOf({0 - LookVal(k, d - 1) : k \in Kids(n)})
RootVal(d) == LookVal(1, d)
TwinsConsistent == \A p \in TwinPairs : (p[1] \in Deepest => leaf[p[1]] = leaf[p[2]])

Sound(wa, wb, r, lv) == \/ wa >= wb
                        \/ /\ (r >= wb => lv >= wb) /\ (r <= wa => lv <= wa)
                           /\ ((wa < r /\ r < wb) => lv = r)
Judge(wa, wb, r, k, dd) == UseTT \/ abortSeen \/ Sound(wa, wb, r, LookVal(k, dd))
Exceeded == nodes >= budget

VARIABLES nd, alpha, beta, dp, a, bb, rem, m, sc, pv, bestk, dr, ra, rrem, rm, 
          rsc, rpv, rbest, d

vars == << pc, leaf, budget, running, nodes, abortSeen, wroteDirty, unsound, 
           tt, ret, bestMove, bestScore, done, info, answer, answers, stack, 
           nd, alpha, beta, dp, a, bb, rem, m, sc, pv, bestk, dr, ra, rrem, 
           rm, rsc, rpv, rbest, d >>

ProcSet == {"searcher"} \cup {"stopper"}

Init == (* Global variables *)
        /\ leaf \in [Deepest -> Vals]
        /\ budget \in ((0..MaxBudget) \cup {1000})
        /\ running = TRUE
        /\ nodes = 0
        /\ abortSeen = FALSE
        /\ wroteDirty = FALSE
        /\ unsound = FALSE
        /\ tt = [k \in Nodes |-> None]
        /\ ret = 0
        /\ bestMove = 0
        /\ bestScore = -1000
        /\ done = <<>>
        /\ info = <<>>
        /\ answer = -1
        /\ answers = 0
        (* Procedure ab *)
        /\ nd = [ self \in ProcSet |-> defaultInitValue]
        /\ alpha = [ self \in ProcSet |-> defaultInitValue]
        /\ beta = [ self \in ProcSet |-> defaultInitValue]
        /\ dp = [ self \in ProcSet |-> defaultInitValue]
        /\ a = [ self \in ProcSet |-> 0]
        /\ bb = [ self \in ProcSet |-> 0]
        /\ rem = [ self \in ProcSet |-> {}]
        /\ m = [ self \in ProcSet |-> 0]
        /\ sc = [ self \in ProcSet |-> 0]
        /\ pv = [ self \in ProcSet |-> FALSE]
        /\ bestk = [ self \in ProcSet |-> 0]
        (* Procedure root *)
        /\ dr = [ self \in ProcSet |-> defaultInitValue]
        /\ ra = [ self \in ProcSet |-> -INF]
        /\ rrem = [ self \in ProcSet |-> {}]
        /\ rm = [ self \in ProcSet |-> 0]
        /\ rsc = [ self \in ProcSet |-> 0]
        /\ rpv = [ self \in ProcSet |-> FALSE]
        /\ rbest = [ self \in ProcSet |-> 0]
        (* Process searcher *)
        /\ d = 1
        /\ stack = [self \in ProcSet |-> << >>]
        /\ pc = [self \in ProcSet |-> CASE self = "searcher" -> "it"
                                        [] self = "stopper" -> "x0"]

e0(self) == /\ pc[self] = "e0"
            /\ IF ~running \/ Exceeded
                  THEN /\ IF Exceeded
                             THEN /\ running' = FALSE
                             ELSE /\ TRUE
                                  /\ UNCHANGED running
                       /\ abortSeen' = TRUE
                       /\ ret' = 0
                       /\ pc' = [pc EXCEPT ![self] = Head(stack[self]).pc]
                       /\ a' = [a EXCEPT ![self] = Head(stack[self]).a]
                       /\ bb' = [bb EXCEPT ![self] = Head(stack[self]).bb]
                       /\ rem' = [rem EXCEPT ![self] = Head(stack[self]).rem]
                       /\ m' = [m EXCEPT ![self] = Head(stack[self]).m]
                       /\ sc' = [sc EXCEPT ![self] = Head(stack[self]).sc]
                       /\ pv' = [pv EXCEPT ![self] = Head(stack[self]).pv]
                       /\ bestk' = [bestk EXCEPT ![self] = Head(stack[self]).bestk]
                       /\ nd' = [nd EXCEPT ![self] = Head(stack[self]).nd]
                       /\ alpha' = [alpha EXCEPT ![self] = Head(stack[self]).alpha]
                       /\ beta' = [beta EXCEPT ![self] = Head(stack[self]).beta]
                       /\ dp' = [dp EXCEPT ![self] = Head(stack[self]).dp]
                       /\ stack' = [stack EXCEPT ![self] = Tail(stack[self])]
                  ELSE /\ pc' = [pc EXCEPT ![self] = "e1"]
                       /\ UNCHANGED << running, abortSeen, ret, stack, nd, 
                                       alpha, beta, dp, a, bb, rem, m, sc, pv, 
                                       bestk >>
            /\ UNCHANGED << leaf, budget, nodes, wroteDirty, unsound, tt, 
                            bestMove, bestScore, done, info, answer, answers, 
                            dr, ra, rrem, rm, rsc, rpv, rbest, d >>

e1(self) == /\ pc[self] = "e1"
            /\ a' = [a EXCEPT ![self] = alpha[self]]
            /\ bb' = [bb EXCEPT ![self] = beta[self]]
            /\ pc' = [pc EXCEPT ![self] = "e1a"]
            /\ UNCHANGED << leaf, budget, running, nodes, abortSeen, 
                            wroteDirty, unsound, tt, ret, bestMove, bestScore, 
                            done, info, answer, answers, stack, nd, alpha, 
                            beta, dp, rem, m, sc, pv, bestk, dr, ra, rrem, rm, 
                            rsc, rpv, rbest, d >>

e1a(self) == /\ pc[self] = "e1a"
             /\ IF UseTT /\ ProbeOutcome(tt[Key(nd[self])], dp[self], alpha[self], beta[self]).ret
                   THEN /\ ret' = ProbeOutcome(tt[Key(nd[self])], dp[self], alpha[self], beta[self]).v
                        /\ pc' = [pc EXCEPT ![self] = Head(stack[self]).pc]
                        /\ a' = [a EXCEPT ![self] = Head(stack[self]).a]
                        /\ bb' = [bb EXCEPT ![self] = Head(stack[self]).bb]
                        /\ rem' = [rem EXCEPT ![self] = Head(stack[self]).rem]
                        /\ m' = [m EXCEPT ![self] = Head(stack[self]).m]
                        /\ sc' = [sc EXCEPT ![self] = Head(stack[self]).sc]
                        /\ pv' = [pv EXCEPT ![self] = Head(stack[self]).pv]
                        /\ bestk' = [bestk EXCEPT ![self] = Head(stack[self]).bestk]
                        /\ nd' = [nd EXCEPT ![self] = Head(stack[self]).nd]
                        /\ alpha' = [alpha EXCEPT ![self] = Head(stack[self]).alpha]
                        /\ beta' = [beta EXCEPT ![self] = Head(stack[self]).beta]
                        /\ dp' = [dp EXCEPT ![self] = Head(stack[self]).dp]
                        /\ stack' = [stack EXCEPT ![self] = Tail(stack[self])]
                   ELSE /\ IF UseTT
                              THEN /\ a' = [a EXCEPT ![self] = ProbeOutcome(tt[Key(nd[self])], dp[self], alpha[self], beta[self]).a]
                                   /\ bb' = [bb EXCEPT ![self] = ProbeOutcome(tt[Key(nd[self])], dp[self], alpha[self], beta[self]).b]
                              ELSE /\ TRUE
                                   /\ UNCHANGED << a, bb >>
                        /\ pc' = [pc EXCEPT ![self] = "e2"]
                        /\ UNCHANGED << ret, stack, nd, alpha, beta, dp, rem, 
                                        m, sc, pv, bestk >>
             /\ UNCHANGED << leaf, budget, running, nodes, abortSeen, 
                             wroteDirty, unsound, tt, bestMove, bestScore, 
                             done, info, answer, answers, dr, ra, rrem, rm, 
                             rsc, rpv, rbest, d >>

e2(self) == /\ pc[self] = "e2"
            /\ IF dp[self] = 0 \/ Kids(nd[self]) = {}
                  THEN /\ pc' = [pc EXCEPT ![self] = "q0"]
                  ELSE /\ pc' = [pc EXCEPT ![self] = "e3"]
            /\ UNCHANGED << leaf, budget, running, nodes, abortSeen, 
                            wroteDirty, unsound, tt, ret, bestMove, bestScore, 
                            done, info, answer, answers, stack, nd, alpha, 
                            beta, dp, a, bb, rem, m, sc, pv, bestk, dr, ra, 
                            rrem, rm, rsc, rpv, rbest, d >>

q0(self) == /\ pc[self] = "q0"
            /\ IF ~running \/ Exceeded
                  THEN /\ IF Exceeded
                             THEN /\ running' = FALSE
                             ELSE /\ TRUE
                                  /\ UNCHANGED running
                       /\ abortSeen' = TRUE
                       /\ ret' = 0
                       /\ pc' = [pc EXCEPT ![self] = Head(stack[self]).pc]
                       /\ a' = [a EXCEPT ![self] = Head(stack[self]).a]
                       /\ bb' = [bb EXCEPT ![self] = Head(stack[self]).bb]
                       /\ rem' = [rem EXCEPT ![self] = Head(stack[self]).rem]
                       /\ m' = [m EXCEPT ![self] = Head(stack[self]).m]
                       /\ sc' = [sc EXCEPT ![self] = Head(stack[self]).sc]
                       /\ pv' = [pv EXCEPT ![self] = Head(stack[self]).pv]
                       /\ bestk' = [bestk EXCEPT ![self] = Head(stack[self]).bestk]
                       /\ nd' = [nd EXCEPT ![self] = Head(stack[self]).nd]
                       /\ alpha' = [alpha EXCEPT ![self] = Head(stack[self]).alpha]
                       /\ beta' = [beta EXCEPT ![self] = Head(stack[self]).beta]
                       /\ dp' = [dp EXCEPT ![self] = Head(stack[self]).dp]
                       /\ stack' = [stack EXCEPT ![self] = Tail(stack[self])]
                  ELSE /\ pc' = [pc EXCEPT ![self] = "q1"]
                       /\ UNCHANGED << running, abortSeen, ret, stack, nd, 
                                       alpha, beta, dp, a, bb, rem, m, sc, pv, 
                                       bestk >>
            /\ UNCHANGED << leaf, budget, nodes, wroteDirty, unsound, tt, 
                            bestMove, bestScore, done, info, answer, answers, 
                            dr, ra, rrem, rm, rsc, rpv, rbest, d >>

q1(self) == /\ pc[self] = "q1"
            /\ ret' = Clamp(Eval(nd[self]), a[self], bb[self])
            /\ pc' = [pc EXCEPT ![self] = Head(stack[self]).pc]
            /\ a' = [a EXCEPT ![self] = Head(stack[self]).a]
            /\ bb' = [bb EXCEPT ![self] = Head(stack[self]).bb]
            /\ rem' = [rem EXCEPT ![self] = Head(stack[self]).rem]
            /\ m' = [m EXCEPT ![self] = Head(stack[self]).m]
            /\ sc' = [sc EXCEPT ![self] = Head(stack[self]).sc]
            /\ pv' = [pv EXCEPT ![self] = Head(stack[self]).pv]
            /\ bestk' = [bestk EXCEPT ![self] = Head(stack[self]).bestk]
            /\ nd' = [nd EXCEPT ![self] = Head(stack[self]).nd]
            /\ alpha' = [alpha EXCEPT ![self] = Head(stack[self]).alpha]
            /\ beta' = [beta EXCEPT ![self] = Head(stack[self]).beta]
            /\ dp' = [dp EXCEPT ![self] = Head(stack[self]).dp]
            /\ stack' = [stack EXCEPT ![self] = Tail(stack[self])]
            /\ UNCHANGED << leaf, budget, running, nodes, abortSeen, 
                            wroteDirty, unsound, tt, bestMove, bestScore, done, 
                            info, answer, answers, dr, ra, rrem, rm, rsc, rpv, 
                            rbest, d >>

e3(self) == /\ pc[self] = "e3"
            /\ rem' = [rem EXCEPT ![self] = Kids(nd[self])]
            /\ bestk' = [bestk EXCEPT ![self] = CHOOSE k \in Kids(nd[self]) : TRUE]
            /\ pc' = [pc EXCEPT ![self] = "lp"]
            /\ UNCHANGED << leaf, budget, running, nodes, abortSeen, 
                            wroteDirty, unsound, tt, ret, bestMove, bestScore, 
                            done, info, answer, answers, stack, nd, alpha, 
                            beta, dp, a, bb, m, sc, pv, dr, ra, rrem, rm, rsc, 
                            rpv, rbest, d >>

lp(self) == /\ pc[self] = "lp"
            /\ IF rem[self] # {}
                  THEN /\ \E k \in rem[self]:
                            /\ m' = [m EXCEPT ![self] = k]
                            /\ rem' = [rem EXCEPT ![self] = rem[self] \ {k}]
                       /\ nodes' = nodes + 1
                       /\ pc' = [pc EXCEPT ![self] = "lc"]
                  ELSE /\ pc' = [pc EXCEPT ![self] = "st"]
                       /\ UNCHANGED << nodes, rem, m >>
            /\ UNCHANGED << leaf, budget, running, abortSeen, wroteDirty, 
                            unsound, tt, ret, bestMove, bestScore, done, info, 
                            answer, answers, stack, nd, alpha, beta, dp, a, bb, 
                            sc, pv, bestk, dr, ra, rrem, rm, rsc, rpv, rbest, 
                            d >>

lc(self) == /\ pc[self] = "lc"
            /\ IF pv[self]
                  THEN /\ /\ alpha' = [alpha EXCEPT ![self] = 0 - a[self] - 1]
                          /\ beta' = [beta EXCEPT ![self] = 0 - a[self]]
                          /\ dp' = [dp EXCEPT ![self] = dp[self] - 1]
                          /\ nd' = [nd EXCEPT ![self] = m[self]]
                          /\ stack' = [stack EXCEPT ![self] = << [ procedure |->  "ab",
                                                                   pc        |->  "r1",
                                                                   a         |->  a[self],
                                                                   bb        |->  bb[self],
                                                                   rem       |->  rem[self],
                                                                   m         |->  m[self],
                                                                   sc        |->  sc[self],
                                                                   pv        |->  pv[self],
                                                                   bestk     |->  bestk[self],
                                                                   nd        |->  nd[self],
                                                                   alpha     |->  alpha[self],
                                                                   beta      |->  beta[self],
                                                                   dp        |->  dp[self] ] >>
                                                               \o stack[self]]
                       /\ a' = [a EXCEPT ![self] = 0]
                       /\ bb' = [bb EXCEPT ![self] = 0]
                       /\ rem' = [rem EXCEPT ![self] = {}]
                       /\ m' = [m EXCEPT ![self] = 0]
                       /\ sc' = [sc EXCEPT ![self] = 0]
                       /\ pv' = [pv EXCEPT ![self] = FALSE]
                       /\ bestk' = [bestk EXCEPT ![self] = 0]
                       /\ pc' = [pc EXCEPT ![self] = "e0"]
                  ELSE /\ /\ alpha' = [alpha EXCEPT ![self] = 0 - bb[self]]
                          /\ beta' = [beta EXCEPT ![self] = 0 - a[self]]
                          /\ dp' = [dp EXCEPT ![self] = dp[self] - 1]
                          /\ nd' = [nd EXCEPT ![self] = m[self]]
                          /\ stack' = [stack EXCEPT ![self] = << [ procedure |->  "ab",
                                                                   pc        |->  "r3",
                                                                   a         |->  a[self],
                                                                   bb        |->  bb[self],
                                                                   rem       |->  rem[self],
                                                                   m         |->  m[self],
                                                                   sc        |->  sc[self],
                                                                   pv        |->  pv[self],
                                                                   bestk     |->  bestk[self],
                                                                   nd        |->  nd[self],
                                                                   alpha     |->  alpha[self],
                                                                   beta      |->  beta[self],
                                                                   dp        |->  dp[self] ] >>
                                                               \o stack[self]]
                       /\ a' = [a EXCEPT ![self] = 0]
                       /\ bb' = [bb EXCEPT ![self] = 0]
                       /\ rem' = [rem EXCEPT ![self] = {}]
                       /\ m' = [m EXCEPT ![self] = 0]
                       /\ sc' = [sc EXCEPT ![self] = 0]
                       /\ pv' = [pv EXCEPT ![self] = FALSE]
                       /\ bestk' = [bestk EXCEPT ![self] = 0]
                       /\ pc' = [pc EXCEPT ![self] = "e0"]
            /\ UNCHANGED << leaf, budget, running, nodes, abortSeen, 
                            wroteDirty, unsound, tt, ret, bestMove, bestScore, 
                            done, info, answer, answers, dr, ra, rrem, rm, rsc, 
                            rpv, rbest, d >>

r1(self) == /\ pc[self] = "r1"
            /\ sc' = [sc EXCEPT ![self] = 0 - ret]
            /\ unsound' = (unsound \/ ~Judge(0 - a[self] - 1, 0 - a[self], ret, m[self], dp[self] - 1))
            /\ pc' = [pc EXCEPT ![self] = "r1b"]
            /\ UNCHANGED << leaf, budget, running, nodes, abortSeen, 
                            wroteDirty, tt, ret, bestMove, bestScore, done, 
                            info, answer, answers, stack, nd, alpha, beta, dp, 
                            a, bb, rem, m, pv, bestk, dr, ra, rrem, rm, rsc, 
                            rpv, rbest, d >>

r1b(self) == /\ pc[self] = "r1b"
             /\ IF a[self] < sc[self] /\ sc[self] < bb[self]
                   THEN /\ /\ alpha' = [alpha EXCEPT ![self] = 0 - bb[self]]
                           /\ beta' = [beta EXCEPT ![self] = 0 - a[self]]
                           /\ dp' = [dp EXCEPT ![self] = dp[self] - 1]
                           /\ nd' = [nd EXCEPT ![self] = m[self]]
                           /\ stack' = [stack EXCEPT ![self] = << [ procedure |->  "ab",
                                                                    pc        |->  "r2",
                                                                    a         |->  a[self],
                                                                    bb        |->  bb[self],
                                                                    rem       |->  rem[self],
                                                                    m         |->  m[self],
                                                                    sc        |->  sc[self],
                                                                    pv        |->  pv[self],
                                                                    bestk     |->  bestk[self],
                                                                    nd        |->  nd[self],
                                                                    alpha     |->  alpha[self],
                                                                    beta      |->  beta[self],
                                                                    dp        |->  dp[self] ] >>
                                                                \o stack[self]]
                        /\ a' = [a EXCEPT ![self] = 0]
                        /\ bb' = [bb EXCEPT ![self] = 0]
                        /\ rem' = [rem EXCEPT ![self] = {}]
                        /\ m' = [m EXCEPT ![self] = 0]
                        /\ sc' = [sc EXCEPT ![self] = 0]
                        /\ pv' = [pv EXCEPT ![self] = FALSE]
                        /\ bestk' = [bestk EXCEPT ![self] = 0]
                        /\ pc' = [pc EXCEPT ![self] = "e0"]
                   ELSE /\ pc' = [pc EXCEPT ![self] = "ck"]
                        /\ UNCHANGED << stack, nd, alpha, beta, dp, a, bb, rem, 
                                        m, sc, pv, bestk >>
             /\ UNCHANGED << leaf, budget, running, nodes, abortSeen, 
                             wroteDirty, unsound, tt, ret, bestMove, bestScore, 
                             done, info, answer, answers, dr, ra, rrem, rm, 
                             rsc, rpv, rbest, d >>

r2(self) == /\ pc[self] = "r2"
            /\ sc' = [sc EXCEPT ![self] = 0 - ret]
            /\ unsound' = (unsound \/ ~Judge(0 - bb[self], 0 - a[self], ret, m[self], dp[self] - 1))
            /\ pc' = [pc EXCEPT ![self] = "ck"]
            /\ UNCHANGED << leaf, budget, running, nodes, abortSeen, 
                            wroteDirty, tt, ret, bestMove, bestScore, done, 
                            info, answer, answers, stack, nd, alpha, beta, dp, 
                            a, bb, rem, m, pv, bestk, dr, ra, rrem, rm, rsc, 
                            rpv, rbest, d >>

r3(self) == /\ pc[self] = "r3"
            /\ sc' = [sc EXCEPT ![self] = 0 - ret]
            /\ unsound' = (unsound \/ ~Judge(0 - bb[self], 0 - a[self], ret, m[self], dp[self] - 1))
            /\ pc' = [pc EXCEPT ![self] = "ck"]
            /\ UNCHANGED << leaf, budget, running, nodes, abortSeen, 
                            wroteDirty, tt, ret, bestMove, bestScore, done, 
                            info, answer, answers, stack, nd, alpha, beta, dp, 
                            a, bb, rem, m, pv, bestk, dr, ra, rrem, rm, rsc, 
                            rpv, rbest, d >>

ck(self) == /\ pc[self] = "ck"
            /\ IF AbortChecked /\ (~running \/ Exceeded)
                  THEN /\ IF Exceeded
                             THEN /\ running' = FALSE
                             ELSE /\ TRUE
                                  /\ UNCHANGED running
                       /\ abortSeen' = TRUE
                       /\ ret' = 0
                       /\ pc' = [pc EXCEPT ![self] = Head(stack[self]).pc]
                       /\ a' = [a EXCEPT ![self] = Head(stack[self]).a]
                       /\ bb' = [bb EXCEPT ![self] = Head(stack[self]).bb]
                       /\ rem' = [rem EXCEPT ![self] = Head(stack[self]).rem]
                       /\ m' = [m EXCEPT ![self] = Head(stack[self]).m]
                       /\ sc' = [sc EXCEPT ![self] = Head(stack[self]).sc]
                       /\ pv' = [pv EXCEPT ![self] = Head(stack[self]).pv]
                       /\ bestk' = [bestk EXCEPT ![self] = Head(stack[self]).bestk]
                       /\ nd' = [nd EXCEPT ![self] = Head(stack[self]).nd]
                       /\ alpha' = [alpha EXCEPT ![self] = Head(stack[self]).alpha]
                       /\ beta' = [beta EXCEPT ![self] = Head(stack[self]).beta]
                       /\ dp' = [dp EXCEPT ![self] = Head(stack[self]).dp]
                       /\ stack' = [stack EXCEPT ![self] = Tail(stack[self])]
                  ELSE /\ pc' = [pc EXCEPT ![self] = "cu"]
                       /\ UNCHANGED << running, abortSeen, ret, stack, nd, 
                                       alpha, beta, dp, a, bb, rem, m, sc, pv, 
                                       bestk >>
            /\ UNCHANGED << leaf, budget, nodes, wroteDirty, unsound, tt, 
                            bestMove, bestScore, done, info, answer, answers, 
                            dr, ra, rrem, rm, rsc, rpv, rbest, d >>

cu(self) == /\ pc[self] = "cu"
            /\ IF sc[self] >= bb[self]
                  THEN /\ tt' = [tt EXCEPT ![Key(nd[self])] = [score |-> sc[self], depth |-> dp[self], bound |-> "L", best |-> m[self]]]
                       /\ wroteDirty' = (wroteDirty \/ abortSeen)
                       /\ ret' = bb[self]
                       /\ pc' = [pc EXCEPT ![self] = Head(stack[self]).pc]
                       /\ a' = [a EXCEPT ![self] = Head(stack[self]).a]
                       /\ bb' = [bb EXCEPT ![self] = Head(stack[self]).bb]
                       /\ rem' = [rem EXCEPT ![self] = Head(stack[self]).rem]
                       /\ m' = [m EXCEPT ![self] = Head(stack[self]).m]
                       /\ sc' = [sc EXCEPT ![self] = Head(stack[self]).sc]
                       /\ pv' = [pv EXCEPT ![self] = Head(stack[self]).pv]
                       /\ bestk' = [bestk EXCEPT ![self] = Head(stack[self]).bestk]
                       /\ nd' = [nd EXCEPT ![self] = Head(stack[self]).nd]
                       /\ alpha' = [alpha EXCEPT ![self] = Head(stack[self]).alpha]
                       /\ beta' = [beta EXCEPT ![self] = Head(stack[self]).beta]
                       /\ dp' = [dp EXCEPT ![self] = Head(stack[self]).dp]
                       /\ stack' = [stack EXCEPT ![self] = Tail(stack[self])]
                  ELSE /\ IF sc[self] > a[self]
                             THEN /\ a' = [a EXCEPT ![self] = sc[self]]
                                  /\ bestk' = [bestk EXCEPT ![self] = m[self]]
                                  /\ pv' = [pv EXCEPT ![self] = TRUE]
                             ELSE /\ TRUE
                                  /\ UNCHANGED << a, pv, bestk >>
                       /\ pc' = [pc EXCEPT ![self] = "lp"]
                       /\ UNCHANGED << wroteDirty, tt, ret, stack, nd, alpha, 
                                       beta, dp, bb, rem, m, sc >>
            /\ UNCHANGED << leaf, budget, running, nodes, abortSeen, unsound, 
                            bestMove, bestScore, done, info, answer, answers, 
                            dr, ra, rrem, rm, rsc, rpv, rbest, d >>

st(self) == /\ pc[self] = "st"
            /\ tt' = [tt EXCEPT ![Key(nd[self])] = [score |-> a[self], depth |-> dp[self], bound |-> IF a[self] <= alpha[self] THEN "U" ELSE "E", best |-> bestk[self]]]
            /\ wroteDirty' = (wroteDirty \/ abortSeen)
            /\ ret' = a[self]
            /\ pc' = [pc EXCEPT ![self] = Head(stack[self]).pc]
            /\ a' = [a EXCEPT ![self] = Head(stack[self]).a]
            /\ bb' = [bb EXCEPT ![self] = Head(stack[self]).bb]
            /\ rem' = [rem EXCEPT ![self] = Head(stack[self]).rem]
            /\ m' = [m EXCEPT ![self] = Head(stack[self]).m]
            /\ sc' = [sc EXCEPT ![self] = Head(stack[self]).sc]
            /\ pv' = [pv EXCEPT ![self] = Head(stack[self]).pv]
            /\ bestk' = [bestk EXCEPT ![self] = Head(stack[self]).bestk]
            /\ nd' = [nd EXCEPT ![self] = Head(stack[self]).nd]
            /\ alpha' = [alpha EXCEPT ![self] = Head(stack[self]).alpha]
            /\ beta' = [beta EXCEPT ![self] = Head(stack[self]).beta]
            /\ dp' = [dp EXCEPT ![self] = Head(stack[self]).dp]
            /\ stack' = [stack EXCEPT ![self] = Tail(stack[self])]
            /\ UNCHANGED << leaf, budget, running, nodes, abortSeen, unsound, 
                            bestMove, bestScore, done, info, answer, answers, 
                            dr, ra, rrem, rm, rsc, rpv, rbest, d >>

ab(self) == e0(self) \/ e1(self) \/ e1a(self) \/ e2(self) \/ q0(self)
               \/ q1(self) \/ e3(self) \/ lp(self) \/ lc(self) \/ r1(self)
               \/ r1b(self) \/ r2(self) \/ r3(self) \/ ck(self) \/ cu(self)
               \/ st(self)

s0(self) == /\ pc[self] = "s0"
            /\ rrem' = [rrem EXCEPT ![self] = Kids(1)]
            /\ rbest' = [rbest EXCEPT ![self] = CHOOSE k \in Kids(1) : TRUE]
            /\ ra' = [ra EXCEPT ![self] = -INF]
            /\ rpv' = [rpv EXCEPT ![self] = FALSE]
            /\ pc' = [pc EXCEPT ![self] = "sl"]
            /\ UNCHANGED << leaf, budget, running, nodes, abortSeen, 
                            wroteDirty, unsound, tt, ret, bestMove, bestScore, 
                            done, info, answer, answers, stack, nd, alpha, 
                            beta, dp, a, bb, rem, m, sc, pv, bestk, dr, rm, 
                            rsc, d >>

sl(self) == /\ pc[self] = "sl"
            /\ IF rrem[self] # {}
                  THEN /\ \E k \in rrem[self]:
                            /\ rm' = [rm EXCEPT ![self] = k]
                            /\ rrem' = [rrem EXCEPT ![self] = rrem[self] \ {k}]
                       /\ nodes' = nodes + 1
                       /\ IF rpv[self]
                             THEN /\ /\ alpha' = [alpha EXCEPT ![self] = 0 - ra[self] - 1]
                                     /\ beta' = [beta EXCEPT ![self] = 0 - ra[self]]
                                     /\ dp' = [dp EXCEPT ![self] = dr[self] - 1]
                                     /\ nd' = [nd EXCEPT ![self] = rm'[self]]
                                     /\ stack' = [stack EXCEPT ![self] = << [ procedure |->  "ab",
                                                                              pc        |->  "t1",
                                                                              a         |->  a[self],
                                                                              bb        |->  bb[self],
                                                                              rem       |->  rem[self],
                                                                              m         |->  m[self],
                                                                              sc        |->  sc[self],
                                                                              pv        |->  pv[self],
                                                                              bestk     |->  bestk[self],
                                                                              nd        |->  nd[self],
                                                                              alpha     |->  alpha[self],
                                                                              beta      |->  beta[self],
                                                                              dp        |->  dp[self] ] >>
                                                                          \o stack[self]]
                                  /\ a' = [a EXCEPT ![self] = 0]
                                  /\ bb' = [bb EXCEPT ![self] = 0]
                                  /\ rem' = [rem EXCEPT ![self] = {}]
                                  /\ m' = [m EXCEPT ![self] = 0]
                                  /\ sc' = [sc EXCEPT ![self] = 0]
                                  /\ pv' = [pv EXCEPT ![self] = FALSE]
                                  /\ bestk' = [bestk EXCEPT ![self] = 0]
                                  /\ pc' = [pc EXCEPT ![self] = "e0"]
                             ELSE /\ /\ alpha' = [alpha EXCEPT ![self] = -INF]
                                     /\ beta' = [beta EXCEPT ![self] = 0 - ra[self]]
                                     /\ dp' = [dp EXCEPT ![self] = dr[self] - 1]
                                     /\ nd' = [nd EXCEPT ![self] = rm'[self]]
                                     /\ stack' = [stack EXCEPT ![self] = << [ procedure |->  "ab",
                                                                              pc        |->  "t3",
                                                                              a         |->  a[self],
                                                                              bb        |->  bb[self],
                                                                              rem       |->  rem[self],
                                                                              m         |->  m[self],
                                                                              sc        |->  sc[self],
                                                                              pv        |->  pv[self],
                                                                              bestk     |->  bestk[self],
                                                                              nd        |->  nd[self],
                                                                              alpha     |->  alpha[self],
                                                                              beta      |->  beta[self],
                                                                              dp        |->  dp[self] ] >>
                                                                          \o stack[self]]
                                  /\ a' = [a EXCEPT ![self] = 0]
                                  /\ bb' = [bb EXCEPT ![self] = 0]
                                  /\ rem' = [rem EXCEPT ![self] = {}]
                                  /\ m' = [m EXCEPT ![self] = 0]
                                  /\ sc' = [sc EXCEPT ![self] = 0]
                                  /\ pv' = [pv EXCEPT ![self] = FALSE]
                                  /\ bestk' = [bestk EXCEPT ![self] = 0]
                                  /\ pc' = [pc EXCEPT ![self] = "e0"]
                  ELSE /\ pc' = [pc EXCEPT ![self] = "sf"]
                       /\ UNCHANGED << nodes, stack, nd, alpha, beta, dp, a, 
                                       bb, rem, m, sc, pv, bestk, rrem, rm >>
            /\ UNCHANGED << leaf, budget, running, abortSeen, wroteDirty, 
                            unsound, tt, ret, bestMove, bestScore, done, info, 
                            answer, answers, dr, ra, rsc, rpv, rbest, d >>

sj(self) == /\ pc[self] = "sj"
            /\ IF ~RootTestFirst /\ rsc[self] > ra[self]
                  THEN /\ ra' = [ra EXCEPT ![self] = rsc[self]]
                       /\ rbest' = [rbest EXCEPT ![self] = rm[self]]
                       /\ rpv' = [rpv EXCEPT ![self] = TRUE]
                  ELSE /\ TRUE
                       /\ UNCHANGED << ra, rpv, rbest >>
            /\ pc' = [pc EXCEPT ![self] = "sk"]
            /\ UNCHANGED << leaf, budget, running, nodes, abortSeen, 
                            wroteDirty, unsound, tt, ret, bestMove, bestScore, 
                            done, info, answer, answers, stack, nd, alpha, 
                            beta, dp, a, bb, rem, m, sc, pv, bestk, dr, rrem, 
                            rm, rsc, d >>

sk(self) == /\ pc[self] = "sk"
            /\ IF ~running \/ Exceeded
                  THEN /\ IF Exceeded
                             THEN /\ running' = FALSE
                             ELSE /\ TRUE
                                  /\ UNCHANGED running
                       /\ IF bestScore # -1000 /\ ra[self] > bestScore
                             THEN /\ bestScore' = ra[self]
                                  /\ bestMove' = rbest[self]
                             ELSE /\ TRUE
                                  /\ UNCHANGED << bestMove, bestScore >>
                       /\ pc' = [pc EXCEPT ![self] = Head(stack[self]).pc]
                       /\ ra' = [ra EXCEPT ![self] = Head(stack[self]).ra]
                       /\ rrem' = [rrem EXCEPT ![self] = Head(stack[self]).rrem]
                       /\ rm' = [rm EXCEPT ![self] = Head(stack[self]).rm]
                       /\ rsc' = [rsc EXCEPT ![self] = Head(stack[self]).rsc]
                       /\ rpv' = [rpv EXCEPT ![self] = Head(stack[self]).rpv]
                       /\ rbest' = [rbest EXCEPT ![self] = Head(stack[self]).rbest]
                       /\ dr' = [dr EXCEPT ![self] = Head(stack[self]).dr]
                       /\ stack' = [stack EXCEPT ![self] = Tail(stack[self])]
                  ELSE /\ pc' = [pc EXCEPT ![self] = "su"]
                       /\ UNCHANGED << running, bestMove, bestScore, stack, dr, 
                                       ra, rrem, rm, rsc, rpv, rbest >>
            /\ UNCHANGED << leaf, budget, nodes, abortSeen, wroteDirty, 
                            unsound, tt, ret, done, info, answer, answers, nd, 
                            alpha, beta, dp, a, bb, rem, m, sc, pv, bestk, d >>

su(self) == /\ pc[self] = "su"
            /\ IF RootTestFirst /\ rsc[self] > ra[self]
                  THEN /\ ra' = [ra EXCEPT ![self] = rsc[self]]
                       /\ rbest' = [rbest EXCEPT ![self] = rm[self]]
                       /\ rpv' = [rpv EXCEPT ![self] = TRUE]
                  ELSE /\ TRUE
                       /\ UNCHANGED << ra, rpv, rbest >>
            /\ pc' = [pc EXCEPT ![self] = "sl"]
            /\ UNCHANGED << leaf, budget, running, nodes, abortSeen, 
                            wroteDirty, unsound, tt, ret, bestMove, bestScore, 
                            done, info, answer, answers, stack, nd, alpha, 
                            beta, dp, a, bb, rem, m, sc, pv, bestk, dr, rrem, 
                            rm, rsc, d >>

t1(self) == /\ pc[self] = "t1"
            /\ rsc' = [rsc EXCEPT ![self] = 0 - ret]
            /\ unsound' = (unsound \/ ~Judge(0 - ra[self] - 1, 0 - ra[self], ret, rm[self], dr[self] - 1))
            /\ IF ra[self] < rsc'[self] /\ rsc'[self] < INF
                  THEN /\ /\ alpha' = [alpha EXCEPT ![self] = -INF]
                          /\ beta' = [beta EXCEPT ![self] = 0 - ra[self]]
                          /\ dp' = [dp EXCEPT ![self] = dr[self] - 1]
                          /\ nd' = [nd EXCEPT ![self] = rm[self]]
                          /\ stack' = [stack EXCEPT ![self] = << [ procedure |->  "ab",
                                                                   pc        |->  "t2",
                                                                   a         |->  a[self],
                                                                   bb        |->  bb[self],
                                                                   rem       |->  rem[self],
                                                                   m         |->  m[self],
                                                                   sc        |->  sc[self],
                                                                   pv        |->  pv[self],
                                                                   bestk     |->  bestk[self],
                                                                   nd        |->  nd[self],
                                                                   alpha     |->  alpha[self],
                                                                   beta      |->  beta[self],
                                                                   dp        |->  dp[self] ] >>
                                                               \o stack[self]]
                       /\ a' = [a EXCEPT ![self] = 0]
                       /\ bb' = [bb EXCEPT ![self] = 0]
                       /\ rem' = [rem EXCEPT ![self] = {}]
                       /\ m' = [m EXCEPT ![self] = 0]
                       /\ sc' = [sc EXCEPT ![self] = 0]
                       /\ pv' = [pv EXCEPT ![self] = FALSE]
                       /\ bestk' = [bestk EXCEPT ![self] = 0]
                       /\ pc' = [pc EXCEPT ![self] = "e0"]
                  ELSE /\ pc' = [pc EXCEPT ![self] = "sj"]
                       /\ UNCHANGED << stack, nd, alpha, beta, dp, a, bb, rem, 
                                       m, sc, pv, bestk >>
            /\ UNCHANGED << leaf, budget, running, nodes, abortSeen, 
                            wroteDirty, tt, ret, bestMove, bestScore, done, 
                            info, answer, answers, dr, ra, rrem, rm, rpv, 
                            rbest, d >>

t2(self) == /\ pc[self] = "t2"
            /\ rsc' = [rsc EXCEPT ![self] = 0 - ret]
            /\ unsound' = (unsound \/ ~Judge(-INF, 0 - ra[self], ret, rm[self], dr[self] - 1))
            /\ pc' = [pc EXCEPT ![self] = "sj"]
            /\ UNCHANGED << leaf, budget, running, nodes, abortSeen, 
                            wroteDirty, tt, ret, bestMove, bestScore, done, 
                            info, answer, answers, stack, nd, alpha, beta, dp, 
                            a, bb, rem, m, sc, pv, bestk, dr, ra, rrem, rm, 
                            rpv, rbest, d >>

t3(self) == /\ pc[self] = "t3"
            /\ rsc' = [rsc EXCEPT ![self] = 0 - ret]
            /\ unsound' = (unsound \/ ~Judge(-INF, 0 - ra[self], ret, rm[self], dr[self] - 1))
            /\ pc' = [pc EXCEPT ![self] = "sj"]
            /\ UNCHANGED << leaf, budget, running, nodes, abortSeen, 
                            wroteDirty, tt, ret, bestMove, bestScore, done, 
                            info, answer, answers, stack, nd, alpha, beta, dp, 
                            a, bb, rem, m, sc, pv, bestk, dr, ra, rrem, rm, 
                            rpv, rbest, d >>

sf(self) == /\ pc[self] = "sf"
            /\ IF running /\ ~Exceeded
                  THEN /\ tt' = [tt EXCEPT ![Key(1)] = [score |-> ra[self], depth |-> dr[self], bound |-> "E", best |-> rbest[self]]]
                       /\ wroteDirty' = (wroteDirty \/ abortSeen)
                       /\ bestScore' = ra[self]
                       /\ bestMove' = rbest[self]
                       /\ done' = Append(done, <<ra[self], rbest[self]>>)
                       /\ UNCHANGED running
                  ELSE /\ IF Exceeded
                             THEN /\ running' = FALSE
                             ELSE /\ TRUE
                                  /\ UNCHANGED running
                       /\ UNCHANGED << wroteDirty, tt, bestMove, bestScore, 
                                       done >>
            /\ pc' = [pc EXCEPT ![self] = Head(stack[self]).pc]
            /\ ra' = [ra EXCEPT ![self] = Head(stack[self]).ra]
            /\ rrem' = [rrem EXCEPT ![self] = Head(stack[self]).rrem]
            /\ rm' = [rm EXCEPT ![self] = Head(stack[self]).rm]
            /\ rsc' = [rsc EXCEPT ![self] = Head(stack[self]).rsc]
            /\ rpv' = [rpv EXCEPT ![self] = Head(stack[self]).rpv]
            /\ rbest' = [rbest EXCEPT ![self] = Head(stack[self]).rbest]
            /\ dr' = [dr EXCEPT ![self] = Head(stack[self]).dr]
            /\ stack' = [stack EXCEPT ![self] = Tail(stack[self])]
            /\ UNCHANGED << leaf, budget, nodes, abortSeen, unsound, ret, info, 
                            answer, answers, nd, alpha, beta, dp, a, bb, rem, 
                            m, sc, pv, bestk, d >>

root(self) == s0(self) \/ sl(self) \/ sj(self) \/ sk(self) \/ su(self)
                 \/ t1(self) \/ t2(self) \/ t3(self) \/ sf(self)

it == /\ pc["searcher"] = "it"
      /\ IF d <= D
            THEN /\ /\ dr' = [dr EXCEPT !["searcher"] = d]
                    /\ stack' = [stack EXCEPT !["searcher"] = << [ procedure |->  "root",
                                                                   pc        |->  "af",
                                                                   ra        |->  ra["searcher"],
                                                                   rrem      |->  rrem["searcher"],
                                                                   rm        |->  rm["searcher"],
                                                                   rsc       |->  rsc["searcher"],
                                                                   rpv       |->  rpv["searcher"],
                                                                   rbest     |->  rbest["searcher"],
                                                                   dr        |->  dr["searcher"] ] >>
                                                               \o stack["searcher"]]
                 /\ ra' = [ra EXCEPT !["searcher"] = -INF]
                 /\ rrem' = [rrem EXCEPT !["searcher"] = {}]
                 /\ rm' = [rm EXCEPT !["searcher"] = 0]
                 /\ rsc' = [rsc EXCEPT !["searcher"] = 0]
                 /\ rpv' = [rpv EXCEPT !["searcher"] = FALSE]
                 /\ rbest' = [rbest EXCEPT !["searcher"] = 0]
                 /\ pc' = [pc EXCEPT !["searcher"] = "s0"]
            ELSE /\ pc' = [pc EXCEPT !["searcher"] = "fin"]
                 /\ UNCHANGED << stack, dr, ra, rrem, rm, rsc, rpv, rbest >>
      /\ UNCHANGED << leaf, budget, running, nodes, abortSeen, wroteDirty, 
                      unsound, tt, ret, bestMove, bestScore, done, info, 
                      answer, answers, nd, alpha, beta, dp, a, bb, rem, m, sc, 
                      pv, bestk, d >>

af == /\ pc["searcher"] = "af"
      /\ IF ~running \/ Exceeded
            THEN /\ pc' = [pc EXCEPT !["searcher"] = "fin"]
                 /\ UNCHANGED << info, d >>
            ELSE /\ info' = Append(info, d)
                 /\ d' = d + 1
                 /\ pc' = [pc EXCEPT !["searcher"] = "it"]
      /\ UNCHANGED << leaf, budget, running, nodes, abortSeen, wroteDirty, 
                      unsound, tt, ret, bestMove, bestScore, done, answer, 
                      answers, stack, nd, alpha, beta, dp, a, bb, rem, m, sc, 
                      pv, bestk, dr, ra, rrem, rm, rsc, rpv, rbest >>

fin == /\ pc["searcher"] = "fin"
       /\ running' = FALSE
       /\ pc' = [pc EXCEPT !["searcher"] = "out"]
       /\ UNCHANGED << leaf, budget, nodes, abortSeen, wroteDirty, unsound, tt, 
                       ret, bestMove, bestScore, done, info, answer, answers, 
                       stack, nd, alpha, beta, dp, a, bb, rem, m, sc, pv, 
                       bestk, dr, ra, rrem, rm, rsc, rpv, rbest, d >>

out == /\ pc["searcher"] = "out"
       /\ IF bestMove # 0
             THEN /\ answer' = bestMove
                  /\ answers' = answers + 1
             ELSE /\ IF Fallback
                        THEN /\ answer' = (CHOOSE k \in Kids(1) : TRUE)
                             /\ answers' = answers + 1
                        ELSE /\ answer' = -2
                             /\ UNCHANGED answers
       /\ pc' = [pc EXCEPT !["searcher"] = "Done"]
       /\ UNCHANGED << leaf, budget, running, nodes, abortSeen, wroteDirty, 
                       unsound, tt, ret, bestMove, bestScore, done, info, 
                       stack, nd, alpha, beta, dp, a, bb, rem, m, sc, pv, 
                       bestk, dr, ra, rrem, rm, rsc, rpv, rbest, d >>

searcher == it \/ af \/ fin \/ out

x0 == /\ pc["stopper"] = "x0"
      /\ running' = FALSE
      /\ pc' = [pc EXCEPT !["stopper"] = "Done"]
      /\ UNCHANGED << leaf, budget, nodes, abortSeen, wroteDirty, unsound, tt, 
                      ret, bestMove, bestScore, done, info, answer, answers, 
                      stack, nd, alpha, beta, dp, a, bb, rem, m, sc, pv, bestk, 
                      dr, ra, rrem, rm, rsc, rpv, rbest, d >>

stopper == x0

(* Allow infinite stuttering to prevent deadlock on termination. *)
Terminating == /\ \A self \in ProcSet: pc[self] = "Done"
               /\ UNCHANGED vars

Next == searcher \/ stopper
           \/ (\E self \in ProcSet: ab(self) \/ root(self))
           \/ Terminating

Spec == /\ Init /\ [][Next]_vars
        /\ WF_vars(searcher) /\ WF_vars(root("searcher")) /\ WF_vars(ab("searcher"))

Termination == <>(\A self \in ProcSet: pc[self] = "Done")

\* END TRANSLATION

-----------------------------------------------------------------------------
Finished == pc["searcher"] = "Done"

\* C11 at design level: every completed iteration has the exact minimax value of the look-ahead game and the
\* chosen move has that value, whatever the move order.  With cache probes on this still holds in this family
\* of trees (transposing nodes sit at the same level, so an entry that passes the depth test was computed for
\* the same remaining depth): the cache is a pure optimisation here.  (Trusting Upper entries of shallower
\* searches does NOT break this on all 256 trees with B = 2, D = 3, evaluations {0,1} - TLC, 23 M states - which
\* matches how rarely that seeded defect shows in real positions; see DESIGN.md 14.5.)
ValueExact ==
  \A i \in 1..Len(done) : /\ done[i][1] = RootVal(i)
                                   /\ 0 - LookVal(done[i][2], i - 1) = RootVal(i)

\* C13 at design level: nothing is written to the cache after an abort-return.
WritesClean == ~wroteDirty

\* C11 at node level: every child search honours the alpha-beta contract (exact inside the window, a true
\* bound outside), the same predicate SearchTrace.tla (mode STEP) demands of the real search
NodeContract == ~unsound

\* every stored entry is true of the un-interrupted game (probes off): Exact = value, Lower <= value <= Upper
NodeOfKey(k) == k
EntriesTrue ==
  UseTT \/ \A k \in Nodes : tt[k].depth >= 0 =>
              LET v == LookVal(k, tt[k].depth) IN
              CASE tt[k].bound = "E" -> tt[k].score = v
                [] tt[k].bound = "L" -> v >= tt[k].score
                [] tt[k].bound = "U" -> v <= tt[k].score

\* C09 at design level: exactly one answer, a root move, whenever and however the search is cut
OneBest == /\ answers <= 1
           /\ Finished => (answers = 1 /\ answer \in Kids(1))
NoPanic == answer # -2
\* C14 at design level: depths reported are 1, 2, 3, ... and a search that is never cut reports all of them
InfoOrdered == \A i \in 1..Len(info) : info[i] = i
AllDepths == (Finished /\ budget = 1000 /\ pc["stopper"] = "x0") => Len(info) = D
\* a partial result is adopted only on top of a completed iteration
PartialSound == bestMove # 0 => Len(done) >= 1
\* the answer comes from completed work: the score kept with the best move is that move's look-ahead value at the
\* depth of some iteration (probes off) - never the dummy value of an interrupted child
AnswerIsAValue == (bestMove # 0 /\ ~UseTT) => \E dd \in 1..D : bestScore = 0 - LookVal(bestMove, dd - 1)

Terminates == <>Finished
=============================================================================
