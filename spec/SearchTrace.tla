----------------------------- MODULE SearchTrace -----------------------------
(***************************************************************************)
(* Judgement of recorded searches of the real engine.                      *)
(*                                                                         *)
(* Mode "C11": each record is a case {fen, hist, depth, best, score} with  *)
(*   the un-pruned look-ahead tree of the case (dumped with the Board API  *)
(*   only).  The engine's look-ahead game is DEFINED here (LookVal /       *)
(*   Quiesce / RootVal: full width to the nominal depth, one extra ply     *)
(*   when the side to move is in check, capture-only quiescence with       *)
(*   stand-pat at the horizon, immediate draw on the fifty-move rule or a  *)
(*   repeated position, mate scored by distance from the root) and the     *)
(*   engine's score and the value of its chosen move must equal RootVal.   *)
(* Mode "C12": mate-level facts of a position and the move chosen with the *)
(*   cache active; the three clauses of the property are evaluated.        *)
(* Mode "C13": event stream search / ttwrite / abort / end.  Within a      *)
(*   search no cache write may follow an abort-return, and the writes of   *)
(*   an interrupted search must be a prefix of the writes of the           *)
(*   uninterrupted search of the same case (the search is deterministic    *)
(*   up to the interruption, so anything else was computed from an         *)
(*   unfinished part of the tree or would not have been written).          *)
(* Mode "STEP": a dumped tree followed by the `down` / `up` events of the real search (every child    *)
(*   search): each returned value must be sound for its window - exact inside the window, a true bound    *)
(*   outside it - with respect to LookVal / Quiesce of the node searched.                                *)
(* Mode "STORE": the same stream; every cache write (`ttwrite`) of the real search must be true of the node it  *)
(*   is stored for: Exact = the value at the stored depth, Lower <= value <= Upper (EntriesTrue of Search.tla).    *)
(* Mode "PROBE": the transposition-table probes of cached searches: each `probe` event (entry found,   *)
(*   remaining depth and window of the node) is followed by what the node did - `probed` with the window *)
(*   it went on with, or the parent's `up` when it returned at once - and that must be the outcome of    *)
(*   ProbeOutcome (TTProbe.tla), the probe rule of the design model Search.tla.                         *)
(* Mode "C16": results of repeated searches: (best, score, nodes) must be  *)
(*   a function of (case, depth).                                          *)
(***************************************************************************)
EXTENDS Integers, Sequences, FiniteSets, TLC, Json, IOUtils, FiniteSetsExt, TTProbe

CONSTANT Mode
Rec == ndJsonDeserialize(IOEnv.TRACE)
N == Len(Rec)

MIN == -32768
MAX == 32767
Neg(x) == IF x = MIN THEN MAX ELSE 0 - x        \* i16 saturating negation
MaxOf(S) == CHOOSE x \in S : \A y \in S : y <= x

-----------------------------------------------------------------------------
(* The look-ahead game over a dumped tree.  A tree is a header line h (ev = "tree": fen, hist, depth, *)
(* best, score, n) followed by its n nodes, one per line: node k of the tree is Rec[h + k] =         *)
(* [fifty, rep, chk, eval, full, kids], kids[j] = <<child number (0 = not expanded), capture flag,  *)
(* move>>.  Node 1 is the root.                                                                     *)

Node(h, k) == Rec[h + k]

RECURSIVE Quiesce(_, _)
Quiesce(h, n) ==
  LET nd == Node(h, n)
      caps == {j \in 1..Len(nd.kids) : nd.kids[j][2] = 1} IN
  MaxOf({nd.eval} \cup {Neg(Quiesce(h, nd.kids[j][1])) : j \in caps})

RECURSIVE LookVal(_, _, _, _)
LookVal(h, n, d, ply) ==
  LET nd == Node(h, n) IN
  IF nd.fifty THEN 0                              \* fifty-move rule: immediate draw
  ELSE IF nd.rep THEN 0                           \* position seen before on this line: immediate draw
  ELSE LET dd == d + (IF nd.chk THEN 1 ELSE 0) IN \* get out of check before the horizon
       IF dd = 0 THEN Quiesce(h, n)
       ELSE IF Len(nd.kids) = 0 THEN (IF nd.chk THEN MIN + ply ELSE 0)      \* mate by distance / stalemate
       ELSE MaxOf({Neg(LookVal(h, nd.kids[j][1], dd - 1, ply + 1)) : j \in 1..Len(nd.kids)})

RootKids(h) == Node(h, 1).kids
ChildVal(h, j) == Neg(LookVal(h, RootKids(h)[j][1], Rec[h].depth - 1, 1))
RootVal(h) == MaxOf({ChildVal(h, j) : j \in 1..Len(RootKids(h))})

\* the dump must have expanded every node the definition walks through
RECURSIVE Expanded(_, _, _)
Expanded(h, n, d) ==
  LET nd == Node(h, n) IN
  IF nd.fifty \/ nd.rep THEN TRUE
  ELSE LET dd == d + (IF nd.chk THEN 1 ELSE 0) IN
       IF dd = 0 THEN \A j \in 1..Len(nd.kids) : nd.kids[j][2] = 1 => nd.kids[j][1] # 0
       ELSE /\ nd.full
            /\ \A j \in 1..Len(nd.kids) : nd.kids[j][1] # 0 /\ Expanded(h, nd.kids[j][1], dd - 1)

C11Fails(h) ==
  LET t == Rec[h] IN
  IF Len(RootKids(h)) = 0 THEN {}                 \* no legal move: outside the property
  ELSE IF ~(\A j \in 1..Len(RootKids(h)) : RootKids(h)[j][1] # 0 /\ Expanded(h, RootKids(h)[j][1], t.depth - 1))
  THEN {"DUMP-INCOMPLETE"}
  ELSE LET rv == RootVal(h)
           chosen == {j \in 1..Len(RootKids(h)) : RootKids(h)[j][3] = t.best} IN
       (IF t.panicked THEN {"panicked"} ELSE {})
       \cup (IF t.score # rv THEN {"root-score"} ELSE {})
       \cup (IF chosen = {} THEN {"best-not-a-root-move"}
             ELSE IF \E j \in chosen : ChildVal(h, j) # rv THEN {"value-of-chosen-move"} ELSE {})
Trees == {i \in 1..N : Rec[i].ev = "tree"}

-----------------------------------------------------------------------------
(* C12 *)
Mates(f) == f.mates
ForcesMate2(f) == ~f.stale /\ Len(f.replies) > 0 /\ \A i \in 1..Len(f.replies) : f.replies[i][2] = 1
Safe(f) == \A i \in 1..Len(f.replies) : f.replies[i][1] = 0
C12Fails(r) ==
  LET F == {r.facts[i] : i \in 1..Len(r.facts)}
      ch == {f \in F : f.mv = r.best} IN
  IF F = {} THEN {}
  ELSE IF r.panicked THEN {"panicked"}
  ELSE IF ch = {} THEN {"best-not-a-root-move"}
  ELSE LET c == CHOOSE f \in ch : TRUE IN
       (IF (\E f \in F : Mates(f)) /\ ~Mates(c) THEN {"missed-mate-in-1"} ELSE {})
       \* "keeps a forced mate": the chosen move mates, or forces mate in two, or (keeps3, exhaustive analysis two
       \* moves deeper by the harness) still leaves a forced mate of at most three moves - the engine may take a
       \* longer road, it must not let the mate slip
       \cup (IF (\E f \in F : Mates(f) \/ ForcesMate2(f)) /\ ~(Mates(c) \/ ForcesMate2(c) \/ r.keeps3) THEN {"lost-forced-mate"} ELSE {})
       \cup (IF (\E f \in F : Safe(f)) /\ ~Safe(c) THEN {"allowed-avoidable-mate-in-1"} ELSE {})
C12Applies(r) ==
  LET F == {r.facts[i] : i \in 1..Len(r.facts)} IN
  \/ \E f \in F : Mates(f) \/ ForcesMate2(f)
  \/ (\E f \in F : Safe(f)) /\ (\E f \in F : ~Safe(f))

-----------------------------------------------------------------------------
(* C16 *)
Res(r) == <<r.best, r.score, r.nodes>>
C16Bad == {i \in 1..N : Rec[i].ev = "result" /\
             (Rec[i].panicked \/ \E j \in 1..(i - 1) : Rec[j].ev = "result" /\ Rec[j].case = Rec[i].case
                                  /\ Rec[j].depth = Rec[i].depth /\ Res(Rec[j]) # Res(Rec[i]))}

-----------------------------------------------------------------------------
(* STEP: node-level soundness of the alpha-beta contract.  A child searched with window (a, b) and *)
(* remaining depth d returns r (child's point of view):  a < r < b => r is the exact value;        *)
(* r >= b => the exact value is >= b;  r <= a => the exact value is <= a.                           *)
KidByMove(h, n, mv) ==
  LET nd == Node(h, n)
      js == {j \in 1..Len(nd.kids) : nd.kids[j][3] = mv} IN
  IF n = 0 \/ js = {} THEN 0 ELSE nd.kids[CHOOSE j \in js : TRUE][1]
ChildWindow(r) ==      \* the window the child was given, from the caller's alpha/beta and the kind of call
  IF r.kind = "null" THEN <<Neg(r.alpha) - 1, Neg(r.alpha)>> ELSE <<Neg(r.beta), Neg(r.alpha)>>
StepFails(h, n, r) ==
  LET win == ChildWindow(r)
      a == win[1]  b == win[2]
      ret == Neg(r.score)
      lv == IF r.kind = "q" THEN Quiesce(h, n) ELSE LookVal(h, n, r.depth, r.ply) IN
  IF a >= b THEN {}        \* degenerate window (saturated mate bounds): the contract says nothing
  ELSE
  (IF ret >= b /\ ~(lv >= b) THEN {"fail-high-but-value-below-beta"} ELSE {})
  \cup (IF ret <= a /\ ~(lv <= a) THEN {"fail-low-but-value-above-alpha"} ELSE {})
  \cup (IF a < ret /\ ret < b /\ lv # ret THEN {"inside-window-but-not-exact"} ELSE {})

-----------------------------------------------------------------------------
(* ORD: the assumption Search.tla makes about the move-ordering iterator: it yields every move *)
(* of the list it was given exactly once (then "any order" in the model covers it).            *)
SeqSet(q) == {q[i] : i \in 1..Len(q)}
OrdFails(r) ==
  (IF Len(r.out) # Len(r.moves) THEN {"length"} ELSE {})
  \cup (IF SeqSet(r.out) # SeqSet(r.moves) THEN {"not-the-same-moves"} ELSE {})
  \cup (IF Cardinality(SeqSet(r.out)) # Cardinality(SeqSet(r.moves)) THEN {"repeats"} ELSE {})
\* for information only (heuristics are free): cached move first, captures before quiet moves
OrdTTFirst(r) == r.tt \in SeqSet(r.moves) => r.out[1] = r.tt
OrdCapsFirst(r) == \A i, j \in 1..Len(r.out) : (i < j /\ r.out[i] # r.tt /\ r.caps[i] = 0) => r.caps[j] = 0

-----------------------------------------------------------------------------
(* Stateless modes are evaluated in the initial state and reported by PrintT. *)
VARIABLES l, cur, aborted, widx, ref, refOf, judged, rejected, stk, hd
svars == <<l, cur, aborted, widx, ref, refOf, judged, rejected, stk, hd>>

FirstOf(S) == CHOOSE i \in S : \A j \in S : i <= j
Stateless ==
  CASE Mode = "C11" ->
         LET bad == {h \in Trees : C11Fails(h) # {}} IN
         IF bad = {} THEN PrintT(<<"ACCEPT", Cardinality(Trees), Cardinality({h \in Trees : Len(RootKids(h)) > 0})>>)
         ELSE PrintT(<<"REJECT", FirstOf(bad), "tree", C11Fails(FirstOf(bad)), Rec[FirstOf(bad)].score, RootVal(FirstOf(bad))>>)
    [] Mode = "C12" ->
         LET bad == {i \in 1..N : Rec[i].ev = "mate" /\ C12Fails(Rec[i]) # {}} IN
         IF bad = {} THEN PrintT(<<"ACCEPT", N, Cardinality({i \in 1..N : Rec[i].ev = "mate" /\ C12Applies(Rec[i])})>>)
         ELSE PrintT(<<"REJECT", FirstOf(bad), "mate", C12Fails(Rec[FirstOf(bad)]), 0, 0>>)
    [] Mode = "C16" ->
         IF C16Bad = {} THEN PrintT(<<"ACCEPT", N, Cardinality({<<Rec[i].case, Rec[i].depth>> : i \in {j \in 1..N : Rec[j].ev = "result"}})>>)
         ELSE PrintT(<<"REJECT", FirstOf(C16Bad), "result", {"same-input-different-result"}, 0, 0>>)
    [] Mode = "ORD" ->
         LET bad == {i \in 1..N : OrdFails(Rec[i]) # {}} IN
         IF bad = {} THEN PrintT(<<"ACCEPT", N, Cardinality({i \in 1..N : OrdTTFirst(Rec[i])}),
                                   Cardinality({i \in 1..N : OrdCapsFirst(Rec[i])})>>)
         ELSE PrintT(<<"REJECT", FirstOf(bad), "order", OrdFails(Rec[FirstOf(bad)]), 0, 0>>)
    [] OTHER -> TRUE

-----------------------------------------------------------------------------
(* C13: a state machine over the event stream *)
WriteOf(r) == <<r.key, r.score, r.depth, r.bound, r.best>>

Reject(what) ==
  /\ PrintT(<<"REJECT", l, Rec[l].ev, what, 0, 0>>)
  /\ rejected' = TRUE /\ UNCHANGED <<l, cur, aborted, widx, ref, refOf, judged, stk, hd>>

\* ref = line of the "search" event of the uninterrupted run of the current group (its cache writes are the
\* lines ref+1 .. ref+Rec[ref].nev: an uninterrupted run records nothing but writes); kept as a line number
\* so that the state stays small however long the search is.
IsUninterrupted(r) == r.budget = -1 /\ r.movetime = -1 /\ r.stop_us = -1 /\ r.clock = -1

TSearch ==
  /\ Rec[l].ev = "search"
  /\ IF Rec[l].panicked THEN Reject({"panicked"})
     ELSE /\ cur' = Rec[l] /\ aborted' = FALSE /\ widx' = 0
          /\ ref' = IF IsUninterrupted(Rec[l]) THEN l ELSE IF Rec[l].group = refOf THEN ref ELSE 0
          /\ refOf' = Rec[l].group
          /\ l' = l + 1 /\ UNCHANGED <<judged, rejected, stk, hd>>

Uninterrupted == IsUninterrupted(cur)

TWrite ==
  /\ Rec[l].ev = "ttwrite"
  /\ LET r == Rec[l]
         inRef == ref # 0 /\ widx + 1 <= Rec[ref].nev /\ Rec[ref + widx + 1].ev = "ttwrite"
         f == (IF aborted THEN {"write-after-abort"} ELSE {})
              \cup (IF ~Uninterrupted /\ ~aborted /\ ~(inRef /\ WriteOf(Rec[ref + widx + 1]) = WriteOf(r))
                    THEN {"not-a-prefix-of-the-uninterrupted-search"} ELSE {}) IN
     IF f # {} THEN Reject(f)
     ELSE /\ widx' = widx + 1
          /\ judged' = judged + 1
          /\ l' = l + 1 /\ UNCHANGED <<cur, aborted, ref, refOf, rejected, stk, hd>>

TAbort ==
  /\ Rec[l].ev = "abort"
  /\ IF Uninterrupted THEN Reject({"abort-in-uninterrupted-search"})
     ELSE IF cur.budget # -1 /\ cur.movetime = -1 /\ cur.stop_us = -1 /\ cur.clock = -1 /\ Rec[l].nodes < cur.budget
     THEN Reject({"abort-before-budget"})
     ELSE /\ aborted' = TRUE /\ l' = l + 1 /\ UNCHANGED <<cur, widx, ref, refOf, judged, rejected, stk, hd>>

TEnd ==
  /\ Rec[l].ev = "end"
  /\ l' = l + 1 /\ UNCHANGED <<cur, aborted, widx, ref, refOf, judged, rejected, stk, hd>>

\* ---- STEP mode: tree header, node lines (skipped), down / up events
STree ==
  /\ Rec[l].ev = "tree"
  /\ IF Rec[l].panicked THEN Reject({"panicked"})
     ELSE /\ hd' = l /\ stk' = <<1>> /\ l' = l + Rec[l].n + 1        \* jump over the node lines; the root is node 1
          /\ UNCHANGED <<cur, aborted, widx, ref, refOf, judged, rejected>>
SDown ==
  /\ Rec[l].ev = "down"
  /\ LET p == Rec[l].ply                                           \* the child entered is at ply p: its parent is stk[p]
         par == IF p <= Len(stk) THEN stk[p] ELSE 0 IN
     stk' = Append(SubSeq(stk, 1, IF p <= Len(stk) THEN p ELSE Len(stk)), KidByMove(hd, par, Rec[l].mv))
  /\ l' = l + 1 /\ UNCHANGED <<cur, aborted, widx, ref, refOf, judged, rejected, hd>>
SUp ==
  /\ Rec[l].ev = "up"
  /\ LET r == Rec[l]
         n == IF r.ply + 1 <= Len(stk) THEN stk[r.ply + 1] ELSE 0 IN
     IF n = 0 THEN /\ l' = l + 1 /\ UNCHANGED <<cur, aborted, widx, ref, refOf, judged, rejected, stk, hd>>   \* node not in the dump: not judged
     ELSE LET f == IF Mode = "STORE" THEN {} ELSE StepFails(hd, n, r) IN
          IF f # {} THEN Reject(f)
          ELSE /\ judged' = judged + 1 /\ l' = l + 1
               /\ UNCHANGED <<cur, aborted, widx, ref, refOf, rejected, stk, hd>>
\* a cache write of the real search (cache probes neutralised, so every value below it is the look-ahead game's):
\* in mode STORE the entry must be true of the node it is stored for - Exact = its value at the stored depth,
\* Lower <= value, Upper >= value (the invariant EntriesTrue of Search.tla, on the real entries).  The stored
\* depth includes the check extension of the node; the root is stored by alpha_beta_start without extension.
RootValAt(h, d) == MaxOf({Neg(LookVal(h, RootKids(h)[j][1], d - 1, 1)) : j \in 1..Len(RootKids(h))})
StoreFails(h, n, r) ==
  LET lv == IF r.site = "root" THEN RootValAt(h, r.depth)
            ELSE LookVal(h, n, r.depth - (IF Node(h, n).chk THEN 1 ELSE 0), r.ply) IN
  (IF r.bound = "E" /\ lv # r.score THEN {"exact-entry-is-not-the-value"} ELSE {})
  \cup (IF r.bound = "L" /\ ~(lv >= r.score) THEN {"lower-bound-above-the-value"} ELSE {})
  \cup (IF r.bound = "U" /\ ~(lv <= r.score) THEN {"upper-bound-below-the-value"} ELSE {})
  \cup (IF r.bound \notin {"E", "L", "U"} THEN {"bound-kind"} ELSE {})
\* The window of the writing node: a node returns right after its write, so the next event that is not a write
\* is the `up` of that node in its parent (caller's window and kind of call).  Entries written under a degenerate
\* window (alpha >= beta: after a mate in one has raised the root's alpha to the maximum, every later null window
\* is empty) say nothing - the contract of the search says nothing there either (cf. StepFails) - and are exempt;
\* the root's own write has the full window.
RECURSIVE NextNonWrite(_)
NextNonWrite(k) == IF k > N THEN 0 ELSE IF Rec[k].ev = "ttwrite" THEN NextNonWrite(k + 1) ELSE k
WriterWindowKnown(r, k) == r.site = "root" \/ (k # 0 /\ Rec[k].ev = "up" /\ Rec[k].ply = r.ply)
WriterWindowEmpty(r, k) == r.site # "root" /\ ChildWindow(Rec[k])[1] >= ChildWindow(Rec[k])[2]
SWrite ==
  /\ Rec[l].ev = "ttwrite"
  /\ LET r == Rec[l]
         n == IF r.ply + 1 <= Len(stk) THEN stk[r.ply + 1] ELSE 0
         k == NextNonWrite(l + 1) IN
     IF Mode # "STORE" \/ n = 0 \/ ~WriterWindowKnown(r, k) \/ WriterWindowEmpty(r, k)
     THEN /\ l' = l + 1 /\ UNCHANGED <<cur, aborted, widx, ref, refOf, judged, rejected, stk, hd>>
     ELSE LET f == StoreFails(hd, n, r) IN
          IF f # {} THEN Reject(f)
          ELSE /\ judged' = judged + 1 /\ l' = l + 1
               /\ UNCHANGED <<cur, aborted, widx, ref, refOf, rejected, stk, hd>>
SEnd ==
  /\ Rec[l].ev = "endsteps"
  /\ l' = l + 1 /\ UNCHANGED <<cur, aborted, widx, ref, refOf, judged, rejected, stk, hd>>

\* ---- PROBE mode: psearch headers, probe events each followed by its outcome
PSearch ==
  /\ Rec[l].ev = "psearch"
  /\ IF Rec[l].panicked THEN Reject({"panicked"})
     ELSE /\ l' = l + 1 /\ UNCHANGED <<cur, aborted, widx, ref, refOf, judged, rejected, stk, hd>>
ProbeFails(r, nx) ==
  LET o == ProbeOutcome([depth |-> r.edepth, bound |-> r.ebound, score |-> r.escore], r.depth, r.alpha, r.beta) IN
  IF o.ret
  THEN (IF nx.ev = "up" /\ nx.ply = r.ply THEN (IF nx.score = Neg(o.v) THEN {} ELSE {"probe-returned-another-value"})
        ELSE {"probe-entry-not-used"})
  ELSE (IF nx.ev = "probed" /\ nx.ply = r.ply
        THEN (IF nx.alpha = o.a /\ nx.beta = o.b THEN {} ELSE {"probe-window-differs-from-the-rule"})
        ELSE {"probe-returned-from-an-entry-that-does-not-allow-it"})
PProbe ==
  /\ Rec[l].ev = "probe"
  /\ LET nx == IF l + 1 <= N THEN Rec[l + 1] ELSE [ev |-> "none", ply |-> -1]
         f == ProbeFails(Rec[l], nx) IN
     IF f # {} THEN Reject(f)
     ELSE /\ judged' = judged + 1 /\ l' = l + 2
          /\ UNCHANGED <<cur, aborted, widx, ref, refOf, rejected, stk, hd>>

TDone ==
  /\ l = N + 1
  /\ PrintT(<<"ACCEPT", N, judged>>)
  /\ l' = l + 1 /\ UNCHANGED <<cur, aborted, widx, ref, refOf, judged, rejected, stk, hd>>

Init ==
  /\ l = 1 /\ cur = [budget |-> -1, movetime |-> -1, stop_us |-> -1, clock |-> -1, nev |-> 0] /\ aborted = FALSE /\ widx = 0
  /\ ref = 0 /\ refOf = -1 /\ judged = 0 /\ rejected = FALSE /\ stk = <<>> /\ hd = 0
  /\ Stateless

Next ==
  /\ Mode \in {"C13", "STEP", "STORE", "PROBE"} /\ ~rejected
  /\ \/ (l <= N /\ Mode = "C13" /\ (TSearch \/ TWrite \/ TAbort \/ TEnd))
     \/ (l <= N /\ Mode \in {"STEP", "STORE"} /\ (STree \/ SDown \/ SUp \/ SWrite \/ SEnd))
     \/ (l <= N /\ Mode = "PROBE" /\ (PSearch \/ PProbe))
     \/ TDone

Spec == Init /\ [][Next]_svars
=============================================================================
