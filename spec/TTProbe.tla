------------------------------- MODULE TTProbe -------------------------------
(***************************************************************************)
(* The rule by which an inner node of the search consults the position     *)
(* cache (Search::alpha_beta, transposition-table probe).  One definition, *)
(* used by the design model (Search.tla, label e1a) and by the trace       *)
(* specification (SearchTrace.tla, mode "PROBE"), which judges every probe *)
(* recorded from the real search with it.                                  *)
(*                                                                         *)
(* e  = the entry found: [depth, bound \in {"E", "L", "U"}, score]         *)
(* dp = remaining depth of the node, (a, b) = its window                   *)
(* Result: ret = TRUE  - the node returns v at once                        *)
(*         ret = FALSE - the node goes on with the window (a, b)           *)
(* An entry is used only if its depth suffices; an exact entry ends the    *)
(* node, a lower bound raises alpha, an upper bound lowers beta, and a     *)
(* window closed by that ends the node with the entry's score.             *)
(***************************************************************************)
EXTENDS Integers

ProbeOutcome(e, dp, a, b) ==
  IF e.depth < dp THEN [ret |-> FALSE, a |-> a, b |-> b, v |-> 0]
  ELSE IF e.bound = "E" THEN [ret |-> TRUE, a |-> a, b |-> b, v |-> e.score]
  ELSE LET a2 == IF e.bound = "L" /\ e.score > a THEN e.score ELSE a
           b2 == IF e.bound = "U" /\ e.score < b THEN e.score ELSE b IN
       IF a2 >= b2 THEN [ret |-> TRUE, a |-> a2, b |-> b2, v |-> e.score]
       ELSE [ret |-> FALSE, a |-> a2, b |-> b2, v |-> 0]
=============================================================================
