--------------------------- MODULE TTProbeProofs ---------------------------
(***************************************************************************)
(* Why the probe rule of TTProbe.tla is the right rule: if the entry is    *)
(* TRUE of the position (Exact = its value, Lower <= value, Upper >=       *)
(* value, searched at least as deep as the node asks) then                 *)
(*   - a node that returns at once returns a value that satisfies the      *)
(*     alpha-beta contract for its window, and                             *)
(*   - a node that goes on with the narrowed window and gets, for that     *)
(*     window, a sound fail-hard result, has a sound result for its        *)
(*     original window too;                                                *)
(*   - an entry searched less deep than the node asks has no effect.       *)
(* "The value" v is the value at any depth at least the one asked for      *)
(* (the usual convention of a position cache).                             *)
(* For all integers (no bound): proved with TLAPS (tlapm, SMT back end).   *)
(* The conformance check (SearchTrace mode PROBE) shows that the code      *)
(* follows the rule; mode STORE and EntriesTrue show that entries are      *)
(* true; these two theorems close the argument for one probe.              *)
(***************************************************************************)
EXTENDS Integers, TTProbe

Entry == [depth : Int, bound : {"E", "L", "U"}, score : Int]

EntryTrue(e, v) == \/ e.bound = "E" /\ e.score = v
                   \/ e.bound = "L" /\ e.score <= v
                   \/ e.bound = "U" /\ e.score >= v

\* the alpha-beta contract: window (a, b), returned r, true value v
Sound(a, b, r, v) == /\ (r >= b => v >= b)
                     /\ (r <= a => v <= a)
                     /\ ((a < r /\ r < b) => v = r)

THEOREM ReturnSound ==
  ASSUME NEW e \in Entry, NEW dp \in Int, NEW a \in Int, NEW b \in Int, NEW v \in Int,
         a < b, EntryTrue(e, v), ProbeOutcome(e, dp, a, b).ret
  PROVE  Sound(a, b, ProbeOutcome(e, dp, a, b).v, v)
BY DEF ProbeOutcome, EntryTrue, Sound, Entry

THEOREM NarrowedWindowInside ==
  ASSUME NEW e \in Entry, NEW dp \in Int, NEW a \in Int, NEW b \in Int,
         a < b, ~ProbeOutcome(e, dp, a, b).ret
  PROVE  LET o == ProbeOutcome(e, dp, a, b) IN a <= o.a /\ o.a < o.b /\ o.b <= b
BY DEF ProbeOutcome, Entry

THEOREM NarrowSound ==
  ASSUME NEW e \in Entry, NEW dp \in Int, NEW a \in Int, NEW b \in Int, NEW v \in Int, NEW r \in Int,
         a < b, EntryTrue(e, v), ~ProbeOutcome(e, dp, a, b).ret,
         ProbeOutcome(e, dp, a, b).a <= r, r <= ProbeOutcome(e, dp, a, b).b,          \* fail-hard result
         Sound(ProbeOutcome(e, dp, a, b).a, ProbeOutcome(e, dp, a, b).b, r, v)
  PROVE  Sound(a, b, r, v)
BY DEF ProbeOutcome, EntryTrue, Sound, Entry

\* the entry has an effect only if it was searched at least as deep as the node asks
THEOREM UsedOnlyIfDeepEnough ==
  ASSUME NEW e \in Entry, NEW dp \in Int, NEW a \in Int, NEW b \in Int,
         LET o == ProbeOutcome(e, dp, a, b) IN o.ret \/ o.a # a \/ o.b # b
  PROVE  e.depth >= dp
BY DEF ProbeOutcome, Entry

\* an entry that is too shallow changes nothing
THEOREM ShallowIgnored ==
  ASSUME NEW e \in Entry, NEW dp \in Int, NEW a \in Int, NEW b \in Int, e.depth < dp
  PROVE  LET o == ProbeOutcome(e, dp, a, b) IN ~o.ret /\ o.a = a /\ o.b = b
BY DEF ProbeOutcome, Entry
=============================================================================
