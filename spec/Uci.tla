-------------------------------- MODULE Uci --------------------------------
(***************************************************************************)
(* The UCI session protocol of the engine as a two-thread state machine:   *)
(* the input thread (uci.rs: uci_loop / execute_command / go) and the      *)
(* search thread spawned by each accepted go (search.rs: search /          *)
(* iter_deep), communicating through the per-search `running` flag and the *)
(* join handle.  The GUI is a third process that obeys the discipline the  *)
(* UCI protocol gives it: a further go is sent only after a stop, or after *)
(* the GUI has seen the bestmove of the previous go.                       *)
(*                                                                         *)
(* One action per place where the code reads or writes shared state:       *)
(*   search thread k:  S_Entry  (search(): the flag store at entry)        *)
(*                     S_Work   (one iteration's tree search returns; the  *)
(*                               root saves its result iff running)        *)
(*                     S_Check  (iter_deep: loop test after the iteration) *)
(*                     S_Clear  (running := FALSE)                         *)
(*                     S_Best   (print bestmove / unwrap of best move)     *)
(*                     S_Exit   (closure returns: is_finished() = TRUE)    *)
(*   input thread:     M_Read (dispatch), M_Join (blocked in join),        *)
(*                     M_Eof                                               *)
(*                                                                         *)
(* Legacy switches reproduce the pinned code's behaviour (each yields a    *)
(* counterexample); with all of them FALSE the spec is the repaired        *)
(* protocol.                                                               *)
(***************************************************************************)
EXTENDS Integers, Sequences, FiniteSets, TLC

CONSTANTS
  MaxCmds,              \* number of lines the GUI sends
  MaxSearch,            \* number of go commands among them
  MaxIter,              \* iterations after which an unlimited search just keeps searching
  Vocabulary,           \* subset of the commands below
  StartStoresTrue,      \* legacy: search() re-arms the flag at entry (a stop sent before that is lost)
  GoRejectsUnfinished,  \* legacy: go tests JoinHandle::is_finished() (go right after bestmove is dropped)
  NoFallbackMove,       \* legacy: no best move when the first iteration was cut (unwrap panics)
  BestBeforeClear,      \* legacy: bestmove is printed before the flag is cleared
  EofLoops,             \* legacy: end of input is ignored (endless loop)
  ParserPanics,         \* legacy: some malformed lines kill the input thread
  Disciplined           \* the GUI sends a further go only after stop or after seeing bestmove (UCI discipline)

Commands == {"go_inf", "go_lim", "stop", "position_ok", "position_bad", "isready", "newgame", "junk", "quit"}
IsGo(c) == c \in {"go_inf", "go_lim"}
Searches == 1..MaxSearch

VARIABLES
  inbox,      \* lines sent by the GUI and not yet read
  closed,     \* the GUI has closed the pipe
  nsent,      \* lines sent so far
  goSent,     \* go lines sent so far
  stopSince,  \* a stop has been sent since the last go
  mainpc,     \* "read" | "join" | "exit" | "loop" | "dead"
  cur,        \* id of the latest spawned search (0 = none)
  pendingGo,  \* kind of the go the input thread is about to spawn while joining
  pc,         \* pc[k]: "unborn" "entry" "work" "check" "post" "cleared" "printed" "exited" "panicked"
  kind,       \* kind[k]: "inf" | "lim"
  flag,       \* flag[k]: the running flag of search k
  iters,      \* iters[k]: completed (saved) iterations
  saved,      \* saved[k]: the iteration just searched was saved by the root
  bests,      \* bests[k]: bestmove lines printed for search k
  infos,      \* infos[k]: info lines printed for search k
  stopped,    \* stopped[k]: a stop addressed to search k has been executed
  readyOwed,  \* isready lines read and not yet answered (always answered in the same step)
  readySent, readyAns,
  refused,    \* go lines refused by the engine
  pos,        \* version of the session position
  posOf       \* posOf[k]: session position version searched by search k

vars == <<inbox, closed, nsent, goSent, stopSince, mainpc, cur, pendingGo, pc, kind, flag, iters, saved,
          bests, infos, stopped, readyOwed, readySent, readyAns, refused, pos, posOf>>

Finished(k) == pc[k] \in {"exited", "panicked"}
Live(k) == pc[k] \notin {"unborn", "exited", "panicked"}
TotalBests == LET RECURSIVE S(_) S(k) == IF k = 0 THEN 0 ELSE bests[k] + S(k - 1) IN S(MaxSearch)
Spawned == Cardinality({k \in Searches : pc[k] # "unborn"})

Init ==
  /\ inbox = <<>> /\ closed = FALSE /\ nsent = 0 /\ goSent = 0 /\ stopSince = FALSE
  /\ mainpc = "read" /\ cur = 0 /\ pendingGo = "none"
  /\ pc = [k \in Searches |-> "unborn"] /\ kind = [k \in Searches |-> "lim"]
  /\ flag = [k \in Searches |-> FALSE] /\ iters = [k \in Searches |-> 0]
  /\ saved = [k \in Searches |-> FALSE]
  /\ bests = [k \in Searches |-> 0] /\ infos = [k \in Searches |-> 0]
  /\ stopped = [k \in Searches |-> FALSE]
  /\ readyOwed = 0 /\ readySent = 0 /\ readyAns = 0 /\ refused = 0 /\ pos = 0
  /\ posOf = [k \in Searches |-> 0]

-----------------------------------------------------------------------------
(* GUI *)

G_Send(c) ==
  /\ ~closed /\ nsent < MaxCmds /\ c \in Vocabulary
  /\ mainpc \notin {"exit", "dead"}
  /\ IsGo(c) => /\ goSent < MaxSearch
                /\ (Disciplined => (TotalBests = goSent \/ stopSince))   \* UCI discipline for a further go
  /\ inbox' = Append(inbox, c)
  /\ nsent' = nsent + 1
  /\ goSent' = IF IsGo(c) THEN goSent + 1 ELSE goSent
  /\ stopSince' = IF IsGo(c) THEN FALSE ELSE IF c = "stop" THEN TRUE ELSE stopSince
  /\ readySent' = IF c = "isready" THEN readySent + 1 ELSE readySent
  /\ UNCHANGED <<closed, mainpc, cur, pendingGo, pc, kind, flag, iters, saved, bests, infos, stopped,
                 readyOwed, readyAns, refused, pos, posOf>>

G_Close ==
  /\ ~closed /\ closed' = TRUE
  /\ UNCHANGED <<inbox, nsent, goSent, stopSince, mainpc, cur, pendingGo, pc, kind, flag, iters, saved,
                 bests, infos, stopped, readyOwed, readySent, readyAns, refused, pos, posOf>>

-----------------------------------------------------------------------------
(* input thread *)

Spawn(c) ==
  LET k == Spawned + 1 IN
  /\ pc' = [pc EXCEPT ![k] = "entry"]
  /\ kind' = [kind EXCEPT ![k] = IF c = "go_inf" THEN "inf" ELSE "lim"]
  /\ flag' = [flag EXCEPT ![k] = TRUE]           \* Search::new: running = true
  /\ posOf' = [posOf EXCEPT ![k] = pos]
  /\ cur' = k

MainUnch == UNCHANGED <<closed, nsent, goSent, stopSince, iters, saved, bests, infos, readySent>>

M_Read ==
  /\ mainpc = "read" /\ inbox # <<>>
  /\ LET c == Head(inbox) IN
     /\ inbox' = Tail(inbox)
     /\ CASE IsGo(c) ->
               IF GoRejectsUnfinished THEN
                  IF cur # 0 /\ ~Finished(cur)
                  THEN /\ refused' = refused + 1
                       /\ UNCHANGED <<mainpc, cur, pendingGo, pc, kind, flag, stopped, readyOwed, readyAns, pos, posOf>>
                  ELSE /\ Spawn(c)
                       /\ UNCHANGED <<mainpc, pendingGo, stopped, readyOwed, readyAns, refused, pos>>
               ELSE
                  IF cur = 0 \/ Finished(cur)
                  THEN /\ Spawn(c)
                       /\ UNCHANGED <<mainpc, pendingGo, stopped, readyOwed, readyAns, refused, pos>>
                  ELSE IF ~flag[cur]
                  THEN \* the previous search has been told to stop or has ended: wait for it, then start
                       /\ mainpc' = "join" /\ pendingGo' = c
                       /\ UNCHANGED <<cur, pc, kind, flag, stopped, readyOwed, readyAns, refused, pos, posOf>>
                  ELSE \* genuinely still searching: refuse (outside the GUI discipline)
                       /\ refused' = refused + 1
                       /\ UNCHANGED <<mainpc, cur, pendingGo, pc, kind, flag, stopped, readyOwed, readyAns, pos, posOf>>
          [] c = "stop" ->
               /\ IF cur # 0 THEN /\ flag' = [flag EXCEPT ![cur] = FALSE]
                                  /\ stopped' = [stopped EXCEPT ![cur] = TRUE]
                  ELSE UNCHANGED <<flag, stopped>>
               /\ UNCHANGED <<mainpc, cur, pendingGo, pc, kind, readyOwed, readyAns, refused, pos, posOf>>
          [] c = "isready" ->
               /\ readyAns' = readyAns + 1
               /\ UNCHANGED <<mainpc, cur, pendingGo, pc, kind, flag, stopped, readyOwed, refused, pos, posOf>>
          [] c \in {"position_ok", "newgame"} ->
               /\ pos' = pos + 1
               /\ UNCHANGED <<mainpc, cur, pendingGo, pc, kind, flag, stopped, readyOwed, readyAns, refused, posOf>>
          [] c = "position_bad" ->
               UNCHANGED <<mainpc, cur, pendingGo, pc, kind, flag, stopped, readyOwed, readyAns, refused, pos, posOf>>
          [] c = "junk" ->
               /\ mainpc' = IF ParserPanics THEN "dead" ELSE mainpc
               /\ UNCHANGED <<cur, pendingGo, pc, kind, flag, stopped, readyOwed, readyAns, refused, pos, posOf>>
          [] c = "quit" ->
               /\ mainpc' = "exit"
               /\ UNCHANGED <<cur, pendingGo, pc, kind, flag, stopped, readyOwed, readyAns, refused, pos, posOf>>
  /\ MainUnch

M_Join ==
  /\ mainpc = "join" /\ Finished(cur)
  /\ Spawn(pendingGo)
  /\ mainpc' = "read" /\ pendingGo' = "none"
  /\ UNCHANGED <<inbox, stopped, readyOwed, readyAns, refused, pos>>
  /\ MainUnch

M_Eof ==
  /\ mainpc = "read" /\ inbox = <<>> /\ closed
  /\ mainpc' = IF EofLoops THEN "loop" ELSE "exit"
  /\ UNCHANGED <<inbox, closed, nsent, goSent, stopSince, cur, pendingGo, pc, kind, flag, iters, saved, bests,
                 infos, stopped, readyOwed, readySent, readyAns, refused, pos, posOf>>

-----------------------------------------------------------------------------
(* search thread k; it dies with the process when the input thread has exited *)

ProcAlive == mainpc \notin {"exit", "dead"}
SUnch == UNCHANGED <<inbox, closed, nsent, goSent, stopSince, mainpc, cur, pendingGo, kind, stopped,
                     readyOwed, readySent, readyAns, refused, pos, posOf>>

S_Entry(k) ==
  /\ ProcAlive /\ pc[k] = "entry"
  /\ flag' = IF StartStoresTrue THEN [flag EXCEPT ![k] = TRUE] ELSE flag
  /\ pc' = [pc EXCEPT ![k] = "work"]
  /\ UNCHANGED <<iters, saved, bests, infos>> /\ SUnch

\* One iteration's tree search returns.  limit: the budget / clock ran out during it (the code
\* then also clears the flag).  The root saves the result only if the search is still running.
S_Work(k, limit) ==
  /\ ProcAlive /\ pc[k] = "work"
  /\ limit => kind[k] = "lim"
  /\ LET run == flag[k] /\ ~limit IN
     /\ saved' = [saved EXCEPT ![k] = run]
     /\ iters' = [iters EXCEPT ![k] = IF run THEN iters[k] + 1 ELSE iters[k]]
     /\ flag' = IF limit THEN [flag EXCEPT ![k] = FALSE] ELSE flag
  /\ pc' = [pc EXCEPT ![k] = "check"]
  /\ UNCHANGED <<bests, infos>> /\ SUnch

\* iter_deep after the iteration: break if stopped, else report and go on (or finish at the depth limit)
S_Check(k) ==
  /\ ProcAlive /\ pc[k] = "check"
  /\ IF ~flag[k] THEN pc' = [pc EXCEPT ![k] = "post"] /\ UNCHANGED infos
     ELSE /\ infos' = [infos EXCEPT ![k] = infos[k] + 1]
          \* a limited search ends when its depth is exhausted; an unlimited one normally keeps searching until
          \* stopped, but it too runs out of depth eventually (255 iterations - at once when every line is an
          \* immediate draw), so it may end by itself as well
          /\ \/ pc' = [pc EXCEPT ![k] = IF kind[k] = "lim" /\ iters[k] >= MaxIter THEN "post"
                                        ELSE IF iters[k] >= MaxIter THEN "spin" ELSE "work"]
             \/ (kind[k] = "inf" /\ pc' = [pc EXCEPT ![k] = "post"])
  /\ UNCHANGED <<flag, iters, saved, bests>> /\ SUnch

\* an unlimited search that has exhausted the model's iterations keeps searching until stopped
S_Spin(k) ==
  /\ ProcAlive /\ pc[k] = "spin" /\ ~flag[k]
  /\ pc' = [pc EXCEPT ![k] = "post"]
  /\ UNCHANGED <<flag, iters, saved, bests, infos>> /\ SUnch

S_Clear(k) ==
  /\ ProcAlive
  /\ pc[k] = (IF BestBeforeClear THEN "printed" ELSE "post")
  /\ flag' = [flag EXCEPT ![k] = FALSE]
  /\ pc' = [pc EXCEPT ![k] = IF BestBeforeClear THEN "cleared2" ELSE "cleared"]
  /\ UNCHANGED <<iters, saved, bests, infos>> /\ SUnch

S_Best(k) ==
  /\ ProcAlive
  /\ pc[k] = (IF BestBeforeClear THEN "post" ELSE "cleared")
  /\ IF iters[k] = 0 /\ NoFallbackMove
     THEN pc' = [pc EXCEPT ![k] = "panicked"] /\ UNCHANGED bests       \* unwrap() on None
     ELSE /\ bests' = [bests EXCEPT ![k] = bests[k] + 1]
          /\ pc' = [pc EXCEPT ![k] = "printed"]
  /\ UNCHANGED <<flag, iters, saved, infos>> /\ SUnch

S_Exit(k) ==
  /\ ProcAlive
  /\ pc[k] = (IF BestBeforeClear THEN "cleared2" ELSE "printed")
  /\ pc' = [pc EXCEPT ![k] = "exited"]
  /\ UNCHANGED <<flag, iters, saved, bests, infos>> /\ SUnch

SearchStep(k) == S_Entry(k) \/ S_Work(k, FALSE) \/ S_Work(k, TRUE) \/ S_Check(k) \/ S_Spin(k)
                 \/ S_Clear(k) \/ S_Best(k) \/ S_Exit(k)
MainStep == M_Read \/ M_Join \/ M_Eof
GuiStep == (\E c \in Commands : G_Send(c)) \/ G_Close

Next == GuiStep \/ MainStep \/ (\E k \in Searches : SearchStep(k))

Fairness == WF_vars(MainStep) /\ \A k \in Searches : WF_vars(SearchStep(k))
Spec == Init /\ [][Next]_vars /\ Fairness

-----------------------------------------------------------------------------
(* Safety *)

TypeOK ==
  /\ mainpc \in {"read", "join", "exit", "loop", "dead"}
  /\ cur \in 0..MaxSearch /\ nsent \in 0..MaxCmds
  /\ \A k \in Searches : bests[k] \in 0..2 /\ iters[k] \in 0..(MaxIter + 1)

AtMostOneBest == \A k \in Searches : bests[k] <= 1
NoGoRefused == Disciplined => refused = 0                   \* go never dropped (given the GUI discipline)
NoPanic == \A k \in Searches : pc[k] # "panicked"            \* search thread never dies without an answer
InputAlive == mainpc # "dead"                                \* no line kills the engine
OneSearchAtATime == Cardinality({k \in Searches : Live(k)}) <= 1
StopSticks == \A k \in Searches : (stopped[k] /\ Live(k)) => ~flag[k]      \* a stop is never lost
BestImpliesCleared ==                                        \* when the GUI sees bestmove the search is no longer "running"
  BestBeforeClear \/ \A k \in Searches : bests[k] = 1 => ~flag[k]
ReadyAnswered == readyAns <= readySent
Quiescent == /\ inbox = <<>> /\ mainpc = "read" /\ \A k \in Searches : ~Live(k)
AllAnsweredAtRest == Quiescent => \A k \in Searches : pc[k] # "unborn" => bests[k] = 1
SearchedCurrentPosition == \A k \in Searches : pc[k] # "unborn" => posOf[k] <= pos

Safety == /\ TypeOK /\ AtMostOneBest /\ NoGoRefused /\ NoPanic /\ InputAlive /\ OneSearchAtATime
          /\ StopSticks /\ BestImpliesCleared /\ ReadyAnswered /\ AllAnsweredAtRest /\ SearchedCurrentPosition

(* Liveness (checked without a state constraint, under weak fairness of both engine threads) *)
\* a search that is limited, or has been told to stop, is answered (unless the process is told to quit / dies)
Answered(k) == bests[k] = 1 \/ ~ProcAlive
GoAnswered == \A k \in Searches : (pc[k] # "unborn" /\ (kind[k] = "lim" \/ stopped[k])) ~> Answered(k)
ReadyLive == \A n \in 1..MaxCmds : (readySent >= n) ~> (readyAns >= n \/ ~ProcAlive \/ mainpc = "loop")
EofTerminates == (closed /\ inbox = <<>> /\ mainpc = "read") ~> (mainpc = "exit")
NeverWedged == [](mainpc # "loop")
=============================================================================
