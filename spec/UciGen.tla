------------------------------ MODULE UciGen ------------------------------
(***************************************************************************)
(* spec -> impl for C10: every behaviour of Uci.tla for a fixed script of  *)
(* GUI lines, recorded as a trail of step labels.  The controller          *)
(* (lib/sched.py) forces each trail on the real binary by holding the      *)
(* search thread at the labelled schedule points and sending each line at  *)
(* the moment the trail says the input thread reads it.                    *)
(*                                                                         *)
(* A line is sent immediately before the input thread reads it (sending    *)
(* earlier only restricts the GUI's guard), so G_Send and M_Read happen    *)
(* back to back here.                                                      *)
(***************************************************************************)
EXTENDS Uci, Json
CONSTANT Script
VARIABLES trail, mustRead
gvars == <<vars, trail, mustRead>>

Lbl(x) == trail' = Append(trail, x)

\* the GUI sends the next script line only when the input thread is idle; the input thread then
\* reads it at once (mustRead), which makes send + read one step of the schedule
Send ==
  /\ ~mustRead /\ nsent < Len(Script) /\ inbox = <<>> /\ mainpc = "read"
  /\ G_Send(Script[nsent + 1])
  /\ mustRead' = TRUE /\ UNCHANGED trail
Read ==
  /\ mustRead /\ M_Read
  /\ mustRead' = FALSE /\ Lbl(<<"M", Head(inbox)>>)

GNext ==
  \/ Send \/ Read
  \/ /\ ~mustRead /\ UNCHANGED mustRead
     /\ \/ (M_Join /\ Lbl(<<"M", "join">>))
        \/ \E k \in Searches :
              \/ (S_Entry(k) /\ Lbl(<<"S", "entry">>))
              \/ (S_Work(k, FALSE) /\ Lbl(<<"S", "work">>))
              \* (an unlimited search running out of depth by itself cannot be forced on the real binary: excluded)
              \/ (S_Check(k) /\ ~(kind[k] = "inf" /\ flag[k] /\ pc'[k] = "post")
                  /\ Lbl(<<"S", IF pc'[k] = "post" THEN "check-break" ELSE "check-go">>))
              \/ (S_Spin(k) /\ Lbl(<<"S", "spin">>))
              \/ (S_Clear(k) /\ Lbl(<<"S", "clear">>))
              \/ (S_Best(k) /\ Lbl(<<"S", "best">>))
              \/ (S_Exit(k) /\ Lbl(<<"S", "exit">>))

GInit == Init /\ trail = <<>> /\ mustRead = FALSE
GSpec == GInit /\ [][GNext]_gvars

AtRest == ~mustRead /\ nsent = Len(Script) /\ inbox = <<>> /\ mainpc = "read" /\ \A k \in Searches : ~Live(k)
Emit == AtRest => PrintT(<<"SCHED", ToJson(trail)>>)
=============================================================================
