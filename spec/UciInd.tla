------------------------------- MODULE UciInd -------------------------------
(***************************************************************************)
(* Unbounded safety of the repaired UCI protocol, by an inductive          *)
(* invariant discharged with Apalache (no bound on the number of commands  *)
(* or searches).  It is a single-slot abstraction of Uci.tla: since at     *)
(* most one search is live at a time (OneSearchAtATime, model-checked in   *)
(* Uci.tla) one slot is reused for the latest search, and the GUI puts a   *)
(* line into the pipe only when the previous one has been read (pipelines  *)
(* of several unread lines are covered by TLC on Uci.tla).                 *)
(*                                                                         *)
(*   IndInv /\ Next => IndInv'    and    Init => IndInv                    *)
(*   IndInv => NoGoRefused /\ StopSticks /\ Answered                       *)
(***************************************************************************)
EXTENDS Integers

VARIABLES
  \* @type: Str;
  inbox,       \* "none" | "go" | "stop" | "other" | "quit"
  \* @type: Str;
  mainpc,      \* "read" | "join" | "exit"
  \* @type: Str;
  spc,         \* "none" | "entry" | "work" | "check" | "post" | "cleared" | "printed" | "exited"
  \* @type: Bool;
  flag,        \* running flag of the latest search
  \* @type: Bool;
  stoppedCur,  \* a stop has been executed for the latest search
  \* @type: Bool;
  stopSince,   \* a stop has been sent since the last go was sent
  \* @type: Int;
  sent,        \* go lines sent
  \* @type: Int;
  accepted,    \* searches spawned
  \* @type: Int;
  answered,    \* bestmove lines printed
  \* @type: Int;
  refused      \* go lines refused

vars == <<inbox, mainpc, spc, flag, stoppedCur, stopSince, sent, accepted, answered, refused>>

Live == spc \in {"entry", "work", "check", "post", "cleared", "printed"}
BeforeAnswer == spc \in {"entry", "work", "check", "post", "cleared"}

Init ==
  /\ inbox = "none" /\ mainpc = "read" /\ spc = "none" /\ flag = FALSE /\ stoppedCur = FALSE
  /\ stopSince = FALSE /\ sent = 0 /\ accepted = 0 /\ answered = 0 /\ refused = 0

\* ---- GUI (UCI discipline: a further go only after stop, or after having seen the bestmove)
GSend(c) ==
  /\ inbox = "none" /\ mainpc # "exit"
  /\ (c = "go" => (answered = sent \/ stopSince))
  /\ inbox' = c
  /\ sent' = IF c = "go" THEN sent + 1 ELSE sent
  /\ stopSince' = IF c = "go" THEN FALSE ELSE IF c = "stop" THEN TRUE ELSE stopSince
  /\ UNCHANGED <<mainpc, spc, flag, stoppedCur, accepted, answered, refused>>

\* ---- input thread
Spawn == /\ spc' = "entry" /\ flag' = TRUE /\ stoppedCur' = FALSE /\ accepted' = accepted + 1

MRead ==
  /\ mainpc = "read" /\ inbox # "none"
  /\ inbox' = "none"
  /\ \/ /\ inbox = "go"
        /\ \/ (spc \in {"none", "exited"} /\ Spawn /\ UNCHANGED <<mainpc, refused>>)
           \/ (Live /\ ~flag /\ mainpc' = "join" /\ UNCHANGED <<spc, flag, stoppedCur, accepted, refused>>)
           \/ (Live /\ flag /\ refused' = refused + 1 /\ UNCHANGED <<mainpc, spc, flag, stoppedCur, accepted>>)
     \/ /\ inbox = "stop"
        /\ flag' = FALSE
        /\ stoppedCur' = (IF spc = "none" THEN stoppedCur ELSE TRUE)
        /\ UNCHANGED <<mainpc, spc, accepted, refused>>
     \/ /\ inbox = "other"
        /\ UNCHANGED <<mainpc, spc, flag, stoppedCur, accepted, refused>>
     \/ /\ inbox = "quit"
        /\ mainpc' = "exit"
        /\ UNCHANGED <<spc, flag, stoppedCur, accepted, refused>>
  /\ UNCHANGED <<stopSince, sent, answered>>

MJoin ==
  /\ mainpc = "join" /\ spc = "exited"
  /\ Spawn /\ mainpc' = "read"
  /\ UNCHANGED <<inbox, stopSince, sent, answered, refused>>

\* ---- search thread (dies with the process)
SStep ==
  /\ mainpc # "exit"
  /\ \/ (spc = "entry" /\ spc' = "work" /\ UNCHANGED <<flag, answered>>)                 \* no store at entry (repair of D4)
     \/ (spc = "work" /\ spc' = "check" /\ flag' \in {flag, FALSE} /\ UNCHANGED answered) \* a limit may end it
     \/ (spc = "check" /\ ~flag /\ spc' = "post" /\ UNCHANGED <<flag, answered>>)
     \/ (spc = "check" /\ flag /\ spc' \in {"work", "post"} /\ UNCHANGED <<flag, answered>>)
     \/ (spc = "post" /\ spc' = "cleared" /\ flag' = FALSE /\ UNCHANGED answered)         \* cleared before the answer (repair of D5)
     \/ (spc = "cleared" /\ spc' = "printed" /\ answered' = answered + 1 /\ UNCHANGED flag)
     \/ (spc = "printed" /\ spc' = "exited" /\ UNCHANGED <<flag, answered>>)
  /\ UNCHANGED <<inbox, mainpc, stoppedCur, stopSince, sent, accepted, refused>>

Next ==
  \/ \E c \in {"go", "stop", "other", "quit"} : GSend(c)
  \/ MRead \/ MJoin \/ SStep

-----------------------------------------------------------------------------
TypeOK ==
  /\ inbox \in {"none", "go", "stop", "other", "quit"}
  /\ mainpc \in {"read", "join", "exit"}
  /\ spc \in {"none", "entry", "work", "check", "post", "cleared", "printed", "exited"}
  /\ flag \in BOOLEAN /\ stoppedCur \in BOOLEAN /\ stopSince \in BOOLEAN
  /\ sent \in Nat /\ accepted \in Nat /\ answered \in Nat /\ refused \in Nat

\* the properties
NoGoRefused == refused = 0
StopSticks == (stoppedCur /\ Live) => ~flag
Answered == /\ answered <= accepted
            /\ (spc \in {"none", "exited"} /\ mainpc = "read") => answered = accepted

\* the inductive invariant
GoInFlight == (IF inbox = "go" THEN 1 ELSE 0) + (IF mainpc = "join" THEN 1 ELSE 0)
IndInv ==
  /\ TypeOK
  /\ NoGoRefused
  /\ StopSticks
  /\ accepted = answered + (IF BeforeAnswer THEN 1 ELSE 0)          \* every spawned search is answered exactly once
  /\ sent = accepted + GoInFlight                                    \* every go sent is spawned, unread, or waiting in join
  /\ (spc \in {"none", "cleared", "printed", "exited"} => ~flag)      \* the flag is down before the answer and after it
  /\ (spc = "none" => accepted = 0 /\ ~stoppedCur)
  /\ (mainpc = "join" => spc # "none" /\ ~flag /\ inbox \in {"none", "stop", "other", "quit"})
  \* while the input thread is blocked in join, a stop sent after the pending go is still unread
  /\ ((mainpc = "join" /\ inbox # "stop") => ~stopSince)
  /\ (inbox = "go" => ~stopSince)
  \* an unread go meets a search that has ended or has been told to stop
  /\ (inbox = "go" => (spc \in {"none", "printed", "exited"} \/ ~flag))
  \* after a stop has been read (nothing unread, not joining) the latest search is not running
  /\ ((stopSince /\ inbox \in {"none", "other", "quit"} /\ mainpc # "join") => ~flag)
=============================================================================
