------------------------------ MODULE UciTrace ------------------------------
(***************************************************************************)
(* Validation of recorded UCI sessions against Uci.tla (the two-thread     *)
(* protocol) and Chess.tla (what `position` means, which moves are legal). *)
(*                                                                         *)
(* Process-level sessions (engine driven through its stdin/stdout by the   *)
(* controller in lib/engine.py) log what the GUI can see:                  *)
(*   send{cls, t, ...}  recv{kind, t, ...}  stderr{kind}  exit  deadline   *)
(* The engine's internal steps (M_Read, M_Join, S_Entry .. S_Exit) are not *)
(* logged: they are composed silently, so TLC searches for an interleaving *)
(* of Uci.tla that explains the observed lines.  A trace is accepted iff   *)
(* some behaviour consumes all of it (reported through the invariant       *)
(* NotDone, which a complete consumption violates); otherwise the longest  *)
(* matched prefix is reported.                                             *)
(*                                                                         *)
(* In-process sessions (harness uci-inproc, mode C08) log after every      *)
(* command the session position the real uci_loop holds:  cmd{tokens, s}.  *)
(***************************************************************************)
EXTENDS Uci, Json, IOUtils, Bitwise, FiniteSetsExt

CONSTANT Mode
VARIABLES l, sess, shist, sstack,
          gsess, ghist,      \* session position after all lines sent so far (GUI's view)
          goq,               \* per go line in flight: [s, t, lim]
          pend,              \* data of the go the input thread is about to spawn while joining
          sOf, tOf, limOf,   \* per search: position searched, time of its go, its limits
          dOf,               \* per search: last depth reported by an info line
          tStop,             \* time of the first stop sent since the last go (-1: none)
          readyQ,            \* send times of unanswered isready lines
          quitSent, lastT,
          pp                 \* position command being replayed, one move token per step

C == INSTANCE Chess WITH st <- sess, hist <- shist, stack <- sstack

Rec == ndJsonDeserialize(IOEnv.TRACE)
N == Len(Rec)
ZT == Rec[1].w
TMaxSearch == Rec[2].maxgo
TMaxCmds == Rec[2].maxcmds
Allowance == 1500

tv0 == <<l, sess, shist, sstack, gsess, ghist, goq, pend, sOf, tOf, limOf, dOf, tStop, readyQ, quitSent, lastT>>
tvars == <<tv0, pp>>
allvars == <<vars, tvars>>

NoLim == [depth |-> -1, nodes |-> -1, movetime |-> -1, wtime |-> -1, btime |-> -1, winc |-> -1, binc |-> -1]
NoData == [s |-> C!StartState, h |-> {}, t |-> 0, lim |-> NoLim]

-----------------------------------------------------------------------------
(* What `position` means *)

RECURSIVE PlayMoves(_, _, _)
PlayMoves(s, h, toks) ==                  \* <<all legal, final position, earlier positions>>
  IF toks = <<>> THEN <<TRUE, s, h>>
  ELSE LET cands == {m \in C!Legal(s) : C!TokenNames(Head(toks), m)} IN
       IF cands = {} THEN <<FALSE, s, h>>
       ELSE PlayMoves(C!Apply(s, CHOOSE m \in cands : TRUE), h \cup {C!PosId(s)}, Tail(toks))

\* A position command is replayed one move token per step (PosBegin, PosStep*), so that every
\* intermediate position is a concrete value; the command itself is then judged with the result.
Idle == [active |-> FALSE, toks |-> <<>>, i |-> 0, s |-> C!StartState, h |-> {}, ok |-> FALSE]
IsPositionEvent(r) == (r.ev = "cmd" \/ (r.ev = "send" /\ r.cls = "position")) /\ r.start # "none" /\ r.wellformed
PosBegin ==
  /\ l <= N /\ ~pp.active /\ IsPositionEvent(Rec[l])
  /\ pp' = [active |-> TRUE, toks |-> Rec[l].moves, i |-> 1,
            s |-> IF Rec[l].start = "startpos" THEN C!StartState ELSE C!ParseFen(Rec[l].fenchars),
            h |-> {}, ok |-> TRUE]
PosStep ==
  /\ pp.active /\ pp.ok /\ pp.i <= Len(pp.toks)
  /\ LET cands == {m \in C!Legal(pp.s) : C!TokenNames(pp.toks[pp.i], m)} IN
     IF cands = {} THEN pp' = [pp EXCEPT !.ok = FALSE]
     ELSE pp' = [pp EXCEPT !.s = C!Apply(pp.s, CHOOSE m \in cands : TRUE),
                           !.h = pp.h \cup {C!PosId(pp.s)}, !.i = pp.i + 1]
PosDone == pp.active /\ (~pp.ok \/ pp.i > Len(pp.toks))
PosReady(r) == IF IsPositionEvent(r) THEN PosDone ELSE ~pp.active
\* <<all legal, final position, earlier positions>> of the position command being judged
PositionResult(r) == IF IsPositionEvent(r) THEN <<pp.ok, pp.s, pp.h>> ELSE <<FALSE, pp.s, pp.h>>

RightNames == <<"K", "Q", "k", "q">>
LS(s) == [board  |-> [q \in C!Squares |-> s.b[q + 1]],
          turn   |-> IF s.t = 0 THEN "w" ELSE "b",
          castle |-> {RightNames[i] : i \in {j \in 1..4 : s.c[j] = 1}},
          ep     |-> s.ep, half |-> s.h, full |-> s.f]
XorC(a, b) == <<a[1] ^^ b[1], a[2] ^^ b[2], a[3] ^^ b[3], a[4] ^^ b[4]>>
KeyOfPos(p) ==     \* p is a PosId <<board, turn, castle, ep>>
  FoldSet(LAMBDA i, acc : XorC(ZT[i], acc), <<0, 0, 0, 0>>,
          C!Features([board |-> p[1], turn |-> p[2], castle |-> p[3], ep |-> p[4], half |-> 0, full |-> 1]))

\* Allowed time of a go (most permissive reading): -1 = no time clause
Max2(a, b) == IF a > b THEN a ELSE b
AllowedMs(lim, turn) ==
  LET clock == IF turn = "w" THEN lim.wtime ELSE lim.btime
      inc   == IF turn = "w" THEN lim.winc ELSE lim.binc
      mine  == IF clock = -1 /\ inc = -1 THEN -1 ELSE Max2(clock, 0) + Max2(inc, 0)
      other == IF turn = "w" THEN Max2(lim.btime, lim.binc) ELSE Max2(lim.wtime, lim.winc)
  IN IF lim.movetime # -1 \/ mine # -1 THEN Max2(lim.movetime, mine)
     ELSE IF other # -1 THEN 0 ELSE -1
DepthOnly(lim) == lim.depth # -1 /\ lim.nodes = -1 /\ lim.movetime = -1 /\ lim.wtime = -1
                  /\ lim.btime = -1 /\ lim.winc = -1 /\ lim.binc = -1

-----------------------------------------------------------------------------
(* Token grammar of info lines (tokens are sequences of one-character strings) *)

IsDigit(ch) == ch \in {"0", "1", "2", "3", "4", "5", "6", "7", "8", "9"}
IsNum(tok) == Len(tok) >= 1 /\ \A i \in 1..Len(tok) : IsDigit(tok[i])
IsInt(tok) == IsNum(tok) \/ (Len(tok) >= 2 /\ tok[1] = "-" /\ IsNum(Tail(tok)))
Word(tok, chars) == tok = chars
IsMoveTok(tok) ==
  /\ Len(tok) \in {4, 5}
  /\ tok[1] \in {"a", "b", "c", "d", "e", "f", "g", "h"} /\ tok[2] \in {"1", "2", "3", "4", "5", "6", "7", "8"}
  /\ tok[3] \in {"a", "b", "c", "d", "e", "f", "g", "h"} /\ tok[4] \in {"1", "2", "3", "4", "5", "6", "7", "8"}
  /\ Len(tok) = 5 => tok[5] \in {"q", "r", "b", "n"}
W_info == <<"i", "n", "f", "o">>
W_depth == <<"d", "e", "p", "t", "h">>
W_seldepth == <<"s", "e", "l", "d", "e", "p", "t", "h">>
W_nodes == <<"n", "o", "d", "e", "s">>
W_time == <<"t", "i", "m", "e">>
W_nps == <<"n", "p", "s">>
W_score == <<"s", "c", "o", "r", "e">>
W_cp == <<"c", "p">>
W_mate == <<"m", "a", "t", "e">>
W_pv == <<"p", "v">>
\* info depth n [seldepth n] nodes n [time n] [nps n] score (cp x | mate y) pv m+
InfoGrammar(ts) ==
  LET opt(i, w) == IF i + 1 <= Len(ts) /\ ts[i] = w /\ IsNum(ts[i + 1]) THEN i + 2 ELSE i
      i1 == 4                                      \* after: info depth n
      i2 == opt(i1, W_seldepth)
      i3 == i2 + 2                                 \* nodes n
      i4 == opt(i3, W_time)
      i5 == opt(i4, W_nps)
      i6 == i5 + 3                                 \* score cp|mate x
  IN /\ Len(ts) >= 8
     /\ ts[1] = W_info /\ ts[2] = W_depth /\ IsNum(ts[3])
     /\ i2 + 1 <= Len(ts) /\ ts[i2] = W_nodes /\ IsNum(ts[i2 + 1])
     /\ i5 + 2 <= Len(ts) /\ ts[i5] = W_score /\ ts[i5 + 1] \in {W_cp, W_mate} /\ IsInt(ts[i5 + 2])
     /\ i6 + 1 <= Len(ts) /\ ts[i6] = W_pv
     /\ \A j \in (i6 + 1)..Len(ts) : IsMoveTok(ts[j])

-----------------------------------------------------------------------------
Reset ==
  /\ inbox' = <<>> /\ closed' = FALSE /\ nsent' = 0 /\ goSent' = 0 /\ stopSince' = FALSE
  /\ mainpc' = "read" /\ cur' = 0 /\ pendingGo' = "none"
  /\ pc' = [k \in Searches |-> "unborn"] /\ kind' = [k \in Searches |-> "lim"]
  /\ flag' = [k \in Searches |-> FALSE] /\ iters' = [k \in Searches |-> 0]
  /\ saved' = [k \in Searches |-> FALSE]
  /\ bests' = [k \in Searches |-> 0] /\ infos' = [k \in Searches |-> 0]
  /\ stopped' = [k \in Searches |-> FALSE]
  /\ readyOwed' = 0 /\ readySent' = 0 /\ readyAns' = 0 /\ refused' = 0 /\ pos' = 0
  /\ posOf' = [k \in Searches |-> 0]
  /\ sess' = C!StartState /\ shist' = {} /\ sstack' = <<>>
  /\ gsess' = C!StartState /\ ghist' = {}
  /\ goq' = <<>> /\ pend' = NoData
  /\ sOf' = [k \in Searches |-> C!StartState] /\ tOf' = [k \in Searches |-> 0]
  /\ limOf' = [k \in Searches |-> NoLim] /\ dOf' = [k \in Searches |-> 0]
  /\ tStop' = -1 /\ readyQ' = <<>> /\ quitSent' = FALSE /\ lastT' = 0

TInit ==
  /\ Init
  /\ TLCSet(7, 0)
  /\ l = 3
  /\ sess = C!StartState /\ shist = {} /\ sstack = <<>> /\ gsess = C!StartState /\ ghist = {}
  /\ goq = <<>> /\ pend = NoData
  /\ sOf = [k \in Searches |-> C!StartState] /\ tOf = [k \in Searches |-> 0]
  /\ limOf = [k \in Searches |-> NoLim] /\ dOf = [k \in Searches |-> 0]
  /\ tStop = -1 /\ readyQ = <<>> /\ quitSent = FALSE /\ lastT = 0 /\ pp = Idle

TSession == /\ l <= N /\ Rec[l].ev = "session" /\ Reset /\ l' = l + 1

Consume == l' = l + 1
KeepChess == UNCHANGED <<sess, shist, sstack>>

\* ---- lines sent by the GUI ----
SendCmd(r, c) ==
  /\ G_Send(c)
  /\ Consume /\ KeepChess /\ lastT' = r.t
  /\ UNCHANGED <<pend, sOf, tOf, limOf, dOf>>

TSendGo ==
  /\ l <= N /\ Rec[l].ev = "send" /\ Rec[l].cls \in {"go_lim", "go_inf"}
  /\ LET r == Rec[l] IN
     /\ SendCmd(r, r.cls)
     /\ goq' = Append(goq, [s |-> gsess, h |-> ghist, t |-> r.t, lim |-> r.lim])
     /\ tStop' = -1
     /\ UNCHANGED <<gsess, ghist, readyQ, quitSent>>

\* a go line the GUI cannot classify (junk arguments): the engine may take it or refuse it
TSendGoMaybe ==
  /\ l <= N /\ Rec[l].ev = "send" /\ Rec[l].cls = "go_maybe"
  /\ LET r == Rec[l] IN
     \/ /\ SendCmd(r, "go_lim")
        /\ goq' = Append(goq, [s |-> gsess, h |-> ghist, t |-> r.t, lim |-> NoLim])
        /\ tStop' = -1
        /\ UNCHANGED <<gsess, ghist, readyQ, quitSent>>
     \/ /\ SendCmd(r, "junk")
        /\ UNCHANGED <<gsess, ghist, goq, tStop, readyQ, quitSent>>

TSendStop ==
  /\ l <= N /\ Rec[l].ev = "send" /\ Rec[l].cls = "stop"
  /\ SendCmd(Rec[l], "stop")
  /\ tStop' = IF tStop = -1 THEN Rec[l].t ELSE tStop
  /\ UNCHANGED <<gsess, ghist, goq, readyQ, quitSent>>

TSendPosition ==
  /\ l <= N /\ Rec[l].ev = "send" /\ Rec[l].cls = "position" /\ PosReady(Rec[l])
  /\ LET r == Rec[l]
         res == IF IsPositionEvent(r) THEN PositionResult(r) ELSE <<FALSE, gsess, ghist>> IN
     /\ SendCmd(r, IF res[1] THEN "position_ok" ELSE "position_bad")
     /\ gsess' = IF res[1] THEN res[2] ELSE gsess
     /\ ghist' = IF res[1] THEN res[3] ELSE ghist
     /\ UNCHANGED <<goq, tStop, readyQ, quitSent>>

TSendOther ==
  /\ l <= N /\ Rec[l].ev = "send" /\ Rec[l].cls \in {"isready", "newgame", "junk", "quit", "other"}
  /\ LET r == Rec[l] IN
     /\ SendCmd(r, IF r.cls = "other" THEN "junk" ELSE r.cls)
     /\ gsess' = IF r.cls = "newgame" THEN C!StartState ELSE gsess
     /\ ghist' = IF r.cls = "newgame" THEN {} ELSE ghist
     /\ readyQ' = IF r.cls = "isready" THEN Append(readyQ, r.t) ELSE readyQ
     /\ quitSent' = (quitSent \/ r.cls = "quit")
     /\ UNCHANGED <<goq, tStop>>

TClose ==
  /\ l <= N /\ Rec[l].ev = "close"
  /\ G_Close /\ Consume /\ KeepChess /\ lastT' = Rec[l].t
  /\ UNCHANGED <<gsess, ghist, goq, pend, sOf, tOf, limOf, dOf, tStop, readyQ, quitSent>>

\* ---- silent engine steps ----
TrUnch == UNCHANGED <<l, sess, shist, sstack, gsess, ghist, tStop, quitSent, lastT>>

SilentRead ==
  /\ mainpc = "read" /\ inbox # <<>>
  /\ Head(inbox) # "isready"                \* answering isready is observable (TRecvReady)
  /\ M_Read
  /\ IF IsGo(Head(inbox)) THEN
        /\ goq' = Tail(goq)
        /\ IF cur' # cur THEN
              /\ sOf' = [sOf EXCEPT ![cur'] = Head(goq).s] /\ tOf' = [tOf EXCEPT ![cur'] = Head(goq).t]
              /\ limOf' = [limOf EXCEPT ![cur'] = Head(goq).lim] /\ UNCHANGED pend
           ELSE IF mainpc' = "join" THEN pend' = Head(goq) /\ UNCHANGED <<sOf, tOf, limOf>>
           ELSE UNCHANGED <<pend, sOf, tOf, limOf>>
     ELSE UNCHANGED <<goq, pend, sOf, tOf, limOf>>
  /\ UNCHANGED <<dOf, readyQ>> /\ TrUnch

SilentJoin ==
  /\ M_Join
  /\ sOf' = [sOf EXCEPT ![cur'] = pend.s] /\ tOf' = [tOf EXCEPT ![cur'] = pend.t]
  /\ limOf' = [limOf EXCEPT ![cur'] = pend.lim] /\ pend' = NoData
  /\ UNCHANGED <<goq, dOf, readyQ>> /\ TrUnch

SilentSearch ==
  /\ \E k \in Searches : S_Entry(k) \/ S_Work(k, FALSE) \/ S_Work(k, TRUE) \/ S_Spin(k) \/ S_Clear(k) \/ S_Exit(k)
                         \/ (S_Check(k) /\ infos' = infos)      \* a check that prints nothing
  /\ UNCHANGED <<goq, pend, sOf, tOf, limOf, dOf, readyQ>> /\ TrUnch

\* ---- lines printed by the engine ----
TRecvReady ==
  /\ l <= N /\ Rec[l].ev = "recv" /\ Rec[l].kind = "readyok"
  /\ mainpc = "read" /\ inbox # <<>> /\ Head(inbox) = "isready" /\ M_Read
  /\ readyQ # <<>> /\ Rec[l].t - Head(readyQ) <= 2000
  /\ readyQ' = Tail(readyQ)
  /\ Consume /\ KeepChess /\ lastT' = Rec[l].t
  /\ UNCHANGED <<gsess, ghist, goq, pend, sOf, tOf, limOf, dOf, tStop, quitSent>>

PvLegal(s, h, toks) == PlayMoves(s, h, toks)[1]
\* "score mate y": when the principal variation runs into checkmate, y is the number of moves of the mating
\* side in it, positive iff the side to move at the root gives the mate
W_mateTok == W_mate
RECURSIVE IntOf(_)
IntOf(tok) == IF tok[1] = "-" THEN 0 - C!Num(Tail(tok)) ELSE C!Num(tok)
MateScoreOf(ts) ==         \* <<is a mate score, y>>
  LET idx == {i \in 1..(Len(ts) - 2) : ts[i] = W_score /\ ts[i + 1] = W_mate} IN
  IF idx = {} THEN <<FALSE, 0>> ELSE <<TRUE, IntOf(ts[(CHOOSE i \in idx : TRUE) + 2])>>
MateConsistent(s, ts, pv) ==
  LET ms == MateScoreOf(ts)
      res == PlayMoves(s, {}, pv) IN
  (ms[1] /\ res[1] /\ C!Checkmate(res[2])) =>
     /\ (IF ms[2] < 0 THEN 0 - ms[2] ELSE ms[2]) = (Len(pv) + 1) \div 2
     /\ (ms[2] > 0) = (Len(pv) % 2 = 1)

TRecvInfo ==
  /\ l <= N /\ Rec[l].ev = "recv" /\ Rec[l].kind = "info"
  /\ LET r == Rec[l] IN
     \E k \in Searches :
        /\ S_Check(k) /\ infos'[k] = infos[k] + 1
        \* C14 quantifies over positions with a legal move (a finished game searched again prints an empty pv)
        /\ (Mode = "C14" /\ C!Legal(sOf[k]) # {}) =>
             /\ InfoGrammar(r.tokens)
             /\ r.depth = dOf[k] + 1
             /\ PvLegal(sOf[k], {}, r.pv)
             /\ MateConsistent(sOf[k], r.tokens, r.pv)
        /\ dOf' = [dOf EXCEPT ![k] = r.depth]
  /\ Consume /\ KeepChess /\ lastT' = Rec[l].t
  /\ UNCHANGED <<gsess, ghist, goq, pend, sOf, tOf, limOf, tStop, readyQ, quitSent>>

TRecvBest ==
  /\ l <= N /\ Rec[l].ev = "recv" /\ Rec[l].kind = "bestmove"
  /\ LET r == Rec[l] IN
     \E k \in Searches :
        /\ S_Best(k) /\ bests'[k] = bests[k] + 1
        \* legal in the session position as of that go; a position without a legal move is outside the properties
        \* (not judged in junk sessions, where lines outside
        \* the documented form may have moved the session in ways the property does not describe)
        /\ Mode # "C15" => (C!Legal(sOf[k]) = {} \/ \E m \in C!Legal(sOf[k]) : C!TokenNames(r.mv, m))
        \* within the time the limits allow, and promptly after a stop
        /\ Mode \in {"C09", "C10", "C10U"} =>
             LET a == AllowedMs(limOf[k], sOf[k].turn) IN
             /\ (a # -1 => r.t - tOf[k] <= a + Allowance)
             /\ ((stopped[k] /\ tStop # -1) => r.t - Max2(tStop, tOf[k]) <= Allowance)
        \* a depth-only search reports every depth up to N before its bestmove
        /\ (Mode = "C14" /\ DepthOnly(limOf[k]) /\ ~stopped[k] /\ C!Legal(sOf[k]) # {}) => dOf[k] = limOf[k].depth
  /\ Consume /\ KeepChess /\ lastT' = Rec[l].t
  /\ UNCHANGED <<gsess, ghist, goq, pend, sOf, tOf, limOf, dOf, tStop, readyQ, quitSent>>

\* other output (id / option / uciok lines, echo of setoption): no state change
TRecvOther ==
  /\ l <= N /\ Rec[l].ev = "recv" /\ Rec[l].kind = "other"
  /\ Consume /\ KeepChess /\ lastT' = Rec[l].t
  /\ UNCHANGED <<vars, gsess, ghist, goq, pend, sOf, tOf, limOf, dOf, tStop, readyQ, quitSent>>

\* an error message on stderr about a rejected line: allowed, no state change.
\* "refused" (a go refused because a search is running) and "panic" have no spec action.
TStderr ==
  /\ l <= N /\ Rec[l].ev = "stderr"
  /\ (Rec[l].kind = "error" \/ (Rec[l].kind = "refused" /\ ~Disciplined))
  /\ Consume /\ KeepChess
  /\ UNCHANGED <<vars, gsess, ghist, goq, pend, sOf, tOf, limOf, dOf, tStop, readyQ, quitSent, lastT>>

\* the process has ended: only after quit or end of input, and promptly
TExit ==
  /\ l <= N /\ Rec[l].ev = "exit"
  /\ mainpc = "exit" /\ (quitSent \/ closed)
  /\ Rec[l].code = 0
  /\ Rec[l].t - lastT <= 2000
  /\ Consume /\ KeepChess
  /\ UNCHANGED <<vars, gsess, ghist, goq, pend, sOf, tOf, limOf, dOf, tStop, readyQ, quitSent, lastT>>

\* schedule-point events of forced runs: informational here
THook ==
  /\ l <= N /\ Rec[l].ev = "hook"
  /\ Consume /\ KeepChess
  /\ UNCHANGED <<vars, gsess, ghist, goq, pend, sOf, tOf, limOf, dOf, tStop, readyQ, quitSent, lastT>>

\* ---- in-process sessions (mode C08): the session position after every command ----
CmdClass(r) ==
  LET w == IF Len(r.tokens) = 0 THEN <<>> ELSE r.tokens[1] IN
  IF w = <<"p","o","s","i","t","i","o","n">> THEN "position"
  ELSE IF w = <<"u","c","i","n","e","w","g","a","m","e">> THEN "newgame"
  ELSE "other"

TCmd ==
  /\ l <= N /\ Rec[l].ev = "cmd" /\ PosReady(Rec[l])
  /\ LET r == Rec[l]
         cls == CmdClass(r)
         res == IF cls = "position" /\ IsPositionEvent(r) THEN PositionResult(r) ELSE <<FALSE, sess, shist>>
         ns == IF cls = "newgame" THEN C!StartState ELSE IF res[1] THEN res[2] ELSE sess
         nh == IF cls = "newgame" THEN {} ELSE IF res[1] THEN res[3] ELSE shist
         L == LS(r.s)
     IN
     /\ L.board = ns.board /\ L.turn = ns.turn /\ L.castle = ns.castle /\ L.ep = ns.ep
     /\ L.half = ns.half /\ L.full = ns.full
     /\ r.s.k = r.s.fk
     /\ {KeyOfPos(p) : p \in nh} = {r.hk[i] : i \in 1..Len(r.hk)}
     /\ (cls = "position" => r.ok = res[1])
     /\ sess' = ns /\ shist' = nh /\ sstack' = <<>>
  /\ Consume
  /\ UNCHANGED <<vars, gsess, ghist, goq, pend, sOf, tOf, limOf, dOf, tStop, readyQ, quitSent, lastT>>

TNext ==
  \/ /\ (PosBegin \/ PosStep) /\ UNCHANGED <<vars, tv0>>
  \/ /\ (TSendPosition \/ TCmd) /\ pp' = Idle
  \/ /\ \/ TSession \/ TSendGo \/ TSendGoMaybe \/ TSendStop \/ TSendOther \/ TClose
        \/ TRecvReady \/ TRecvInfo \/ TRecvBest \/ TRecvOther \/ TStderr \/ TExit \/ THook
        \/ SilentRead \/ SilentJoin \/ SilentSearch
        \/ (M_Eof /\ UNCHANGED tv0)
     /\ UNCHANGED pp

TSpec == TInit /\ [][TNext]_allvars

\* Bookkeeping of searches that have exited no longer influences anything; hiding it (VIEW) lets
\* the behaviours that differ only in how an earlier search ran converge, which keeps the number of
\* states linear in the length of the session.
Gone(k) == pc[k] \in {"exited", "panicked"}
Canon(f, dflt) == [k \in Searches |-> IF Gone(k) THEN dflt ELSE f[k]]
TView == <<inbox, closed, nsent, goSent, stopSince, mainpc, cur, pendingGo, pc, Canon(kind, "lim"), Canon(flag, FALSE),
           Canon(iters, 0), Canon(saved, FALSE), bests, Canon(infos, 0), Canon(stopped, FALSE),
           readyOwed, readySent, readyAns, refused, pos, Canon(posOf, 0),
           l, sess, shist, sstack, gsess, ghist, goq, pend, Canon(sOf, C!StartState), Canon(tOf, 0), Canon(limOf, NoLim),
           Canon(dOf, 0), tStop, readyQ, quitSent, lastT, pp>>

\* Acceptance: some behaviour consumes the whole trace (then this "invariant" is violated).
NotDone == l <= N
\* Longest matched prefix, kept in a TLC register (single worker).
Progress == IF l > TLCGet(7) THEN TLCSet(7, l) ELSE TRUE
Post == PrintT(<<"MATCHED", TLCGet(7), N>>)
=============================================================================
