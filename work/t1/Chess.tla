------------------------------- MODULE Chess -------------------------------
(***************************************************************************)
(* Rules of chess and the bookkeeping of the RCE engine's Board, written   *)
(* independently of the engine's code (no bitboards, no magic tables):     *)
(*                                                                         *)
(*   board   : [0..63 -> 0..12]      a1 = 0, h1 = 7, a8 = 56, h8 = 63      *)
(*             0 empty, 1..6 white P N B R Q K, 7..12 black P N B R Q K    *)
(*   turn    : "w" | "b"                                                   *)
(*   castle  : SUBSET {"K","Q","k","q"}                                    *)
(*   ep      : -1 or the file 0..7 of a pawn that has just advanced two    *)
(*   half    : half-move clock, full : full-move number                    *)
(*                                                                         *)
(* State machine: variables st (a position record), hist (set of PosIds of *)
(* the earlier positions of the current line), stack (undo records).       *)
(* Actions: Load, Make, Unmake, Query.                                     *)
(*                                                                         *)
(* Conventions that the engine documents and the properties fix:           *)
(*  - ep is set after EVERY double pawn push (whether or not a capture is  *)
(*    possible);                                                           *)
(*  - castling: the king's start, transit and target squares must not be   *)
(*    attacked; b1/b8 may be;                                              *)
(*  - hist is a set: "position seen before in this line".                  *)
(***************************************************************************)
EXTENDS Integers, Sequences, FiniteSets, TLC

Squares == 0..63
File(s) == s % 8
Rank(s) == s \div 8
SqOf(f, r) == r * 8 + f
OnBoard(f, r) == f >= 0 /\ f <= 7 /\ r >= 0 /\ r <= 7

Opp(c) == IF c = "w" THEN "b" ELSE "w"
ColorOf(p) == IF p <= 6 THEN "w" ELSE "b"            \* only for p # 0
Kind(p) == IF p = 0 THEN 0 ELSE ((p - 1) % 6) + 1     \* 1 P 2 N 3 B 4 R 5 Q 6 K
Mk(c, k) == IF c = "w" THEN k ELSE k + 6

KnightD == {<<1,2>>, <<2,1>>, <<2,-1>>, <<1,-2>>, <<-1,-2>>, <<-2,-1>>, <<-2,1>>, <<-1,2>>}
KingD   == {<<1,0>>, <<1,1>>, <<0,1>>, <<-1,1>>, <<-1,0>>, <<-1,-1>>, <<0,-1>>, <<1,-1>>}
RookD   == {<<1,0>>, <<0,1>>, <<-1,0>>, <<0,-1>>}
BishopD == {<<1,1>>, <<-1,1>>, <<-1,-1>>, <<1,-1>>}

Mv(from, to, promo, flag) == [from |-> from, to |-> to, promo |-> promo, flag |-> flag]

-----------------------------------------------------------------------------
(* Attacks *)

\* First occupied square met walking from (f,r) in direction d (exclusive), or -1.
RECURSIVE FirstHit(_, _, _, _)
FirstHit(b, f, r, d) ==
  LET nf == f + d[1]  nr == r + d[2] IN
  IF ~OnBoard(nf, nr) THEN -1
  ELSE IF b[SqOf(nf, nr)] # 0 THEN SqOf(nf, nr)
  ELSE FirstHit(b, nf, nr, d)

\* Is square s attacked by a piece of colour c on board b (computed from the target outwards).
Attacked(b, s, c) ==
  LET f == File(s)  r == Rank(s)  pr == IF c = "w" THEN r - 1 ELSE r + 1 IN
  \/ \E d \in KnightD : OnBoard(f + d[1], r + d[2]) /\ b[SqOf(f + d[1], r + d[2])] = Mk(c, 2)
  \/ \E d \in KingD   : OnBoard(f + d[1], r + d[2]) /\ b[SqOf(f + d[1], r + d[2])] = Mk(c, 6)
  \/ \E df \in {-1, 1} : OnBoard(f + df, pr) /\ b[SqOf(f + df, pr)] = Mk(c, 1)
  \/ \E d \in RookD   : LET h == FirstHit(b, f, r, d) IN h # -1 /\ b[h] \in {Mk(c, 4), Mk(c, 5)}
  \/ \E d \in BishopD : LET h == FirstHit(b, f, r, d) IN h # -1 /\ b[h] \in {Mk(c, 3), Mk(c, 5)}

\* Squares reached sliding from (f,r) in direction d up to and including the first blocker.
RECURSIVE Slide(_, _, _, _)
Slide(b, f, r, d) ==
  LET nf == f + d[1]  nr == r + d[2] IN
  IF ~OnBoard(nf, nr) THEN {}
  ELSE IF b[SqOf(nf, nr)] # 0 THEN {SqOf(nf, nr)}
  ELSE {SqOf(nf, nr)} \cup Slide(b, nf, nr, d)

StepTargets(s, D) ==
  {SqOf(File(s) + d[1], Rank(s) + d[2]) : d \in {e \in D : OnBoard(File(s) + e[1], Rank(s) + e[2])}}

\* Definitional attack set of the piece standing on s (the dual of Attacked).
AttackSet(b, s) ==
  LET p == b[s]  k == Kind(p)  f == File(s)  r == Rank(s) IN
  CASE k = 1 -> LET nr == IF ColorOf(p) = "w" THEN r + 1 ELSE r - 1 IN
                {SqOf(f + df, nr) : df \in {x \in {-1, 1} : OnBoard(f + x, nr)}}
    [] k = 2 -> StepTargets(s, KnightD)
    [] k = 6 -> StepTargets(s, KingD)
    [] k = 3 -> UNION {Slide(b, f, r, d) : d \in BishopD}
    [] k = 4 -> UNION {Slide(b, f, r, d) : d \in RookD}
    [] k = 5 -> UNION {Slide(b, f, r, d) : d \in RookD \cup BishopD}
    [] OTHER -> {}

AttackedDef(b, s, c) == \E q \in Squares : b[q] # 0 /\ ColorOf(b[q]) = c /\ s \in AttackSet(b, q)

KingSq(b, c) == CHOOSE s \in Squares : b[s] = Mk(c, 6)
HasKing(b, c) == \E s \in Squares : b[s] = Mk(c, 6)
InCheck(b, c) == HasKing(b, c) /\ Attacked(b, KingSq(b, c), Opp(c))

-----------------------------------------------------------------------------
(* Move generation *)

Promos == {5, 4, 2, 3}

PawnMoves(st, s) ==
  LET b == st.board  c == st.turn  f == File(s)  r == Rank(s)
      dr == IF c = "w" THEN 1 ELSE -1
      startR == IF c = "w" THEN 1 ELSE 6
      lastR  == IF c = "w" THEN 7 ELSE 0
      epR    == IF c = "w" THEN 4 ELSE 3
      nr == r + dr
      Expand(to, flag) == IF Rank(to) = lastR THEN {Mv(s, to, p, flag) : p \in Promos}
                          ELSE {Mv(s, to, 0, flag)}
      push1 == IF OnBoard(f, nr) /\ b[SqOf(f, nr)] = 0 THEN Expand(SqOf(f, nr), "n") ELSE {}
      push2 == IF r = startR /\ b[SqOf(f, nr)] = 0 /\ b[SqOf(f, nr + dr)] = 0
               THEN {Mv(s, SqOf(f, nr + dr), 0, "dp")} ELSE {}
      caps  == UNION {Expand(SqOf(f + df, nr), "n") :
                        df \in {x \in {-1, 1} : /\ OnBoard(f + x, nr)
                                                /\ b[SqOf(f + x, nr)] # 0
                                                /\ ColorOf(b[SqOf(f + x, nr)]) # c}}
      eps   == {Mv(s, SqOf(f + df, nr), 0, "ep") :
                        df \in {x \in {-1, 1} : /\ r = epR
                                                /\ st.ep # -1
                                                /\ f + x = st.ep}}
  IN push1 \cup push2 \cup caps \cup eps

StepMoves(st, s, D) ==
  {Mv(s, t, 0, "n") : t \in {u \in StepTargets(s, D) :
                                 st.board[u] = 0 \/ ColorOf(st.board[u]) # st.turn}}

SlideMoves(st, s, D) ==
  {Mv(s, t, 0, "n") : t \in {u \in UNION {Slide(st.board, File(s), Rank(s), d) : d \in D} :
                                 st.board[u] = 0 \/ ColorOf(st.board[u]) # st.turn}}

CastleMoves(st) ==
  LET b == st.board  c == st.turn  o == Opp(c)  r0 == IF c = "w" THEN 0 ELSE 56
      ks == IF c = "w" THEN "K" ELSE "k"   qs == IF c = "w" THEN "Q" ELSE "q" IN
  (IF /\ ks \in st.castle /\ b[r0 + 4] = Mk(c, 6) /\ b[r0 + 7] = Mk(c, 4)
      /\ b[r0 + 5] = 0 /\ b[r0 + 6] = 0
      /\ ~Attacked(b, r0 + 4, o) /\ ~Attacked(b, r0 + 5, o) /\ ~Attacked(b, r0 + 6, o)
   THEN {Mv(r0 + 4, r0 + 6, 0, "ck")} ELSE {}) \cup
  (IF /\ qs \in st.castle /\ b[r0 + 4] = Mk(c, 6) /\ b[r0] = Mk(c, 4)
      /\ b[r0 + 1] = 0 /\ b[r0 + 2] = 0 /\ b[r0 + 3] = 0
      /\ ~Attacked(b, r0 + 4, o) /\ ~Attacked(b, r0 + 3, o) /\ ~Attacked(b, r0 + 2, o)
   THEN {Mv(r0 + 4, r0 + 2, 0, "cq")} ELSE {})

PieceMoves(st, s) ==
  LET k == Kind(st.board[s]) IN
  CASE k = 1 -> PawnMoves(st, s)
    [] k = 2 -> StepMoves(st, s, KnightD)
    [] k = 3 -> SlideMoves(st, s, BishopD)
    [] k = 4 -> SlideMoves(st, s, RookD)
    [] k = 5 -> SlideMoves(st, s, RookD \cup BishopD)
    [] k = 6 -> StepMoves(st, s, KingD)
    [] OTHER -> {}

Pseudo(st) ==
  UNION {PieceMoves(st, s) : s \in {q \in Squares : st.board[q] # 0 /\ ColorOf(st.board[q]) = st.turn}}
  \cup CastleMoves(st)

\* Placement after move m by colour c.
ApplyBoard(b, c, m) ==
  LET mover == b[m.from]
      placed == IF m.promo # 0 THEN Mk(c, m.promo) ELSE mover
      r0 == IF c = "w" THEN 0 ELSE 56
      epVictim == SqOf(File(m.to), Rank(m.from)) IN
  [s \in Squares |->
     IF s = m.to THEN placed
     ELSE IF s = m.from THEN 0
     ELSE IF m.flag = "ep" /\ s = epVictim THEN 0
     ELSE IF m.flag = "ck" /\ s = r0 + 7 THEN 0
     ELSE IF m.flag = "ck" /\ s = r0 + 5 THEN Mk(c, 4)
     ELSE IF m.flag = "cq" /\ s = r0 THEN 0
     ELSE IF m.flag = "cq" /\ s = r0 + 3 THEN Mk(c, 4)
     ELSE b[s]]

IsLegal(st, m) == ~InCheck(ApplyBoard(st.board, st.turn, m), st.turn)
Legal(st) == {m \in Pseudo(st) : IsLegal(st, m)}

RightOfSquare(s) ==
  CASE s = 4  -> {"K", "Q"}
    [] s = 0  -> {"Q"}
    [] s = 7  -> {"K"}
    [] s = 60 -> {"k", "q"}
    [] s = 56 -> {"q"}
    [] s = 63 -> {"k"}
    [] OTHER  -> {}

IsCapture(st, m) == st.board[m.to] # 0 \/ m.flag = "ep"
Captured(st, m) == IF m.flag = "ep" THEN Mk(Opp(st.turn), 1) ELSE st.board[m.to]

Apply(st, m) ==
  LET b == st.board  c == st.turn IN
  [board  |-> ApplyBoard(b, c, m),
   turn   |-> Opp(c),
   castle |-> (st.castle \ RightOfSquare(m.from)) \ RightOfSquare(m.to),
   ep     |-> IF m.flag = "dp" THEN File(m.to) ELSE -1,
   half   |-> IF Kind(b[m.from]) = 1 \/ IsCapture(st, m) THEN 0 ELSE st.half + 1,
   full   |-> IF c = "b" THEN st.full + 1 ELSE st.full]

PosId(st) == <<st.board, st.turn, st.castle, st.ep>>

Checkmate(st) == Legal(st) = {} /\ InCheck(st.board, st.turn)
Stalemate(st) == Legal(st) = {} /\ ~InCheck(st.board, st.turn)

\* Coordinate notation pieces (for UCI strings): file letter index and rank digit.
FileCh == <<"a", "b", "c", "d", "e", "f", "g", "h">>
PromoCh(p) == CASE p = 5 -> "q" [] p = 4 -> "r" [] p = 3 -> "b" [] p = 2 -> "n" [] OTHER -> ""

-----------------------------------------------------------------------------
(* Zobrist key as a set of features *)

\* Index (1..781) of each feature in the engine's table, in the order
\* pieces (code-1)*64+sq+1, castling 769..772 (K Q k q), ep file 773..780, white-to-move 781.
RightIdx(x) == CASE x = "K" -> 769 [] x = "Q" -> 770 [] x = "k" -> 771 [] x = "q" -> 772
Features(st) ==
  {(st.board[s] - 1) * 64 + s + 1 : s \in {q \in Squares : st.board[q] # 0}}
  \cup {RightIdx(x) : x \in st.castle}
  \cup (IF st.ep # -1 THEN {773 + st.ep} ELSE {})
  \cup (IF st.turn = "w" THEN {781} ELSE {})

SymDiff(A, B) == (A \ B) \cup (B \ A)

-----------------------------------------------------------------------------
(* Static evaluation (material, from the mover's point of view) *)

Value(k) == CASE k = 1 -> 100 [] k = 2 -> 300 [] k = 3 -> 300 [] k = 4 -> 500 [] k = 5 -> 900 [] OTHER -> 0
RECURSIVE SumOver(_, _)
SumOver(S, b) == IF S = {} THEN 0
                 ELSE LET s == CHOOSE x \in S : TRUE IN
                      (IF ColorOf(b[s]) = "w" THEN Value(Kind(b[s])) ELSE 0 - Value(Kind(b[s])))
                      + SumOver(S \ {s}, b)
WhiteMaterial(b) == SumOver({s \in Squares : b[s] # 0}, b)
Eval(st) == IF st.turn = "w" THEN WhiteMaterial(st.board) ELSE 0 - WhiteMaterial(st.board)

FlipSq(s) == SqOf(File(s), 7 - Rank(s))
SwapPiece(p) == IF p = 0 THEN 0 ELSE IF p <= 6 THEN p + 6 ELSE p - 6
SwapRight(x) == CASE x = "K" -> "k" [] x = "Q" -> "q" [] x = "k" -> "K" [] x = "q" -> "Q"
Mirror(st) == [board  |-> [s \in Squares |-> SwapPiece(st.board[FlipSq(s)])],
               turn   |-> Opp(st.turn),
               castle |-> {SwapRight(x) : x \in st.castle},
               ep     |-> st.ep,
               half   |-> st.half,
               full   |-> st.full]
SwapTurn(st) == [st EXCEPT !.turn = Opp(st.turn), !.ep = -1]
MirrorMove(m) == Mv(FlipSq(m.from), FlipSq(m.to), m.promo, m.flag)

-----------------------------------------------------------------------------
(* FEN reader: a FEN is a sequence of one-character strings *)

PieceOfChar(ch) ==
  CASE ch = "P" -> 1 [] ch = "N" -> 2 [] ch = "B" -> 3 [] ch = "R" -> 4 [] ch = "Q" -> 5 [] ch = "K" -> 6
    [] ch = "p" -> 7 [] ch = "n" -> 8 [] ch = "b" -> 9 [] ch = "r" -> 10 [] ch = "q" -> 11 [] ch = "k" -> 12
    [] OTHER -> 0
DigitOf(ch) ==
  CASE ch = "0" -> 0 [] ch = "1" -> 1 [] ch = "2" -> 2 [] ch = "3" -> 3 [] ch = "4" -> 4
    [] ch = "5" -> 5 [] ch = "6" -> 6 [] ch = "7" -> 7 [] ch = "8" -> 8 [] ch = "9" -> 9 [] OTHER -> -1
FileOfChar(ch) ==
  CASE ch = "a" -> 0 [] ch = "b" -> 1 [] ch = "c" -> 2 [] ch = "d" -> 3
    [] ch = "e" -> 4 [] ch = "f" -> 5 [] ch = "g" -> 6 [] ch = "h" -> 7 [] OTHER -> -1

\* Split a character sequence into space-separated fields.
RECURSIVE SplitFrom(_, _, _, _)
SplitFrom(cs, i, cur, acc) ==
  IF i > Len(cs) THEN (IF cur = <<>> THEN acc ELSE Append(acc, cur))
  ELSE IF cs[i] = " " THEN SplitFrom(cs, i + 1, <<>>, IF cur = <<>> THEN acc ELSE Append(acc, cur))
  ELSE SplitFrom(cs, i + 1, Append(cur, cs[i]), acc)
Fields(cs) == SplitFrom(cs, 1, <<>>, <<>>)

\* Placement field: ranks 8 down to 1, files a to h; returns the set of <<square, piece>>.
RECURSIVE Place(_, _, _, _, _)
Place(cs, i, f, r, acc) ==
  IF i > Len(cs) THEN acc
  ELSE LET ch == cs[i] IN
       IF ch = "/" THEN Place(cs, i + 1, 0, r - 1, acc)
       ELSE IF DigitOf(ch) > 0 THEN Place(cs, i + 1, f + DigitOf(ch), r, acc)
       ELSE Place(cs, i + 1, f + 1, r, acc \cup {<<SqOf(f, r), PieceOfChar(ch)>>})

RECURSIVE NumFrom(_, _, _)
NumFrom(cs, i, acc) == IF i > Len(cs) THEN acc ELSE NumFrom(cs, i + 1, acc * 10 + DigitOf(cs[i]))
Num(cs) == NumFrom(cs, 1, 0)

ParseFen(chars) ==
  LET fs == Fields(chars)
      placed == Place(fs[1], 1, 0, 7, {})
      rightsOf(cs) == {cs[i] : i \in 1..Len(cs)} \cap {"K", "Q", "k", "q"} IN
  [board  |-> [s \in Squares |-> IF \E pr \in placed : pr[1] = s
                                 THEN (CHOOSE pr \in placed : pr[1] = s)[2] ELSE 0],
   turn   |-> IF fs[2][1] = "w" THEN "w" ELSE "b",
   castle |-> rightsOf(fs[3]),
   ep     |-> IF fs[4][1] = "-" THEN -1 ELSE FileOfChar(fs[4][1]),
   half   |-> IF Len(fs) >= 5 THEN Num(fs[5]) ELSE 0,
   full   |-> IF Len(fs) >= 6 THEN Num(fs[6]) ELSE 1]

\* A move token in coordinate notation (sequence of characters) names move m.
NotationOf(m) ==
  <<FileCh[File(m.from) + 1], Rank(m.from) + 1, FileCh[File(m.to) + 1], Rank(m.to) + 1>>
TokenNames(tok, m) ==
  /\ Len(tok) = (IF m.promo = 0 THEN 4 ELSE 5)
  /\ tok[1] = FileCh[File(m.from) + 1] /\ DigitOf(tok[2]) = Rank(m.from) + 1
  /\ tok[3] = FileCh[File(m.to) + 1]   /\ DigitOf(tok[4]) = Rank(m.to) + 1
  /\ (m.promo # 0 => tok[5] = PromoCh(m.promo))

StartChars ==
  <<"r","n","b","q","k","b","n","r","/","p","p","p","p","p","p","p","p","/","8","/","8","/","8","/","8","/",
    "P","P","P","P","P","P","P","P","/","R","N","B","Q","K","B","N","R"," ","w"," ","K","Q","k","q"," ","-"," ","0"," ","1">>
StartState == ParseFen(StartChars)

-----------------------------------------------------------------------------
(* Position well-formedness (what "a legal chess position" means to the checks) *)

CountOf(b, p) == Cardinality({s \in Squares : b[s] = p})
RightsConsistent(st) ==
  /\ "K" \in st.castle => st.board[4] = 6 /\ st.board[7] = 4
  /\ "Q" \in st.castle => st.board[4] = 6 /\ st.board[0] = 4
  /\ "k" \in st.castle => st.board[60] = 12 /\ st.board[63] = 10
  /\ "q" \in st.castle => st.board[60] = 12 /\ st.board[56] = 10
EpConsistent(st) ==
  st.ep # -1 =>
    LET c == Opp(st.turn)                       \* the side that has just pushed
        r4 == IF c = "w" THEN 3 ELSE 4  r3 == IF c = "w" THEN 2 ELSE 5  r2 == IF c = "w" THEN 1 ELSE 6 IN
    /\ st.board[SqOf(st.ep, r4)] = Mk(c, 1)
    /\ st.board[SqOf(st.ep, r3)] = 0
    /\ st.board[SqOf(st.ep, r2)] = 0
WellFormed(st) ==
  /\ CountOf(st.board, 6) = 1 /\ CountOf(st.board, 12) = 1
  /\ \A s \in Squares : Kind(st.board[s]) = 1 => Rank(s) \in 1..6
  /\ ~InCheck(st.board, Opp(st.turn))
  /\ RightsConsistent(st)
  /\ EpConsistent(st)

-----------------------------------------------------------------------------
(* State machine *)

VARIABLES st, hist, stack
vars == <<st, hist, stack>>

StateType ==
  /\ st.board \in [Squares -> 0..12]
  /\ st.turn \in {"w", "b"}
  /\ st.castle \subseteq {"K", "Q", "k", "q"}
  /\ st.ep \in -1..7
  /\ st.half \in Nat /\ st.full \in Nat

Load(s) == /\ st' = s /\ hist' = {} /\ stack' = <<>>
Make(m) == /\ m \in Legal(st)
           /\ stack' = Append(stack, <<st, hist>>)
           /\ hist' = hist \cup {PosId(st)}
           /\ st' = Apply(st, m)
Unmake  == /\ stack # <<>>
           /\ st' = stack[Len(stack)][1]
           /\ hist' = stack[Len(stack)][2]
           /\ stack' = SubSeq(stack, 1, Len(stack) - 1)
Query   == UNCHANGED vars
=============================================================================
