INIT Init
NEXT Next
CONSTANT MaxDepth = 3
INVARIANT Inv
CHECK_DEADLOCK FALSE
