---- MODULE MCPerft ----
EXTENDS Chess
VARIABLES depth
CONSTANT MaxDepth
Init == st = StartState /\ hist = {} /\ stack = <<>> /\ depth = 0
Next == /\ depth < MaxDepth
        /\ \E m \in Legal(st) : Make(m)
        /\ depth' = depth + 1
Inv == WellFormed(st)
====
