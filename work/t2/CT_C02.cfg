SPECIFICATION TSpec
CONSTANT Mode = "C02"
INVARIANT SpecStateOK
CHECK_DEADLOCK FALSE
