SPECIFICATION TSpec
CONSTANT Mode = "C03"
INVARIANT SpecStateOK
CHECK_DEADLOCK FALSE
