SPECIFICATION TSpec
CONSTANT Mode = "C04"
INVARIANT SpecStateOK
CHECK_DEADLOCK FALSE
