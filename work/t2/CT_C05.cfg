SPECIFICATION TSpec
CONSTANT Mode = "C05"
INVARIANT SpecStateOK
CHECK_DEADLOCK FALSE
