SPECIFICATION TSpec
CONSTANT Mode = "C07"
INVARIANT SpecStateOK
CHECK_DEADLOCK FALSE
