SPECIFICATION TSpec
CONSTANT Mode = "C17"
INVARIANT SpecStateOK
CHECK_DEADLOCK FALSE
